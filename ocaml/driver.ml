(* Replays an op script in the extracted Coq model and prints one canonical line per op.
   Contains no collector logic: parsing, number conversion, printing only. *)
open Model

let rec nat_of_int n = if n <= 0 then O else S (nat_of_int (n - 1))
let rec pos_of_int n =
  if n <= 1 then XH else if n land 1 = 0 then XO (pos_of_int (n lsr 1)) else XI (pos_of_int (n lsr 1))
let n_of_int n = if n <= 0 then N0 else Npos (pos_of_int n)
let z_of_int n = if n = 0 then Z0 else if n > 0 then Zpos (pos_of_int n) else Zneg (pos_of_int (-n))

let string_of_coq (s : Model.string) : Stdlib.String.t =
  let b = Buffer.create 256 in
  let rec go = function
    | EmptyString -> ()
    | String (Ascii (b0, b1, b2, b3, b4, b5, b6, b7), t) ->
      let v x i = if x then 1 lsl i else 0 in
      Buffer.add_char b (Char.chr (v b0 0 + v b1 1 + v b2 2 + v b3 3 + v b4 4 + v b5 5 + v b6 6 + v b7 7));
      go t
  in
  go s; Buffer.contents b

let q_of_string s =
  match String.split_on_char '/' s with
  | [n] -> { qnum = z_of_int (int_of_string n); qden = XH }
  | [n; d] -> { qnum = z_of_int (int_of_string n); qden = pos_of_int (int_of_string d) }
  | _ -> failwith ("bad rational " ^ s)

let opt f s = if s = "-" then None else Some (f s)
let nat s = nat_of_int (int_of_string s)

let kind_of = function
  | "node" -> KNode | "leaf" -> KLeaf | "set" -> KSet | "lock" -> KLock | "once" -> KOnce
  | "struct" -> KStruct | s -> failwith ("bad kind " ^ s)

let cbkind_of = function
  | "new" -> CNew | "trynew" -> CTryNew | "mutate" -> CMutate | "mutroot" -> CMutateRoot
  | "maproot" -> CMapRoot | "trymaproot" -> CTryMapRoot
  | "finalize0" -> CFinalize false | "finalize1" -> CFinalize true
  | s -> failwith ("bad cbkind " ^ s)

let how_of = function
  | "cd" -> HCollectDebt | "md" -> HMarkDebt | "fm" -> HFinishMarking | "cyd" -> HCycleDebt
  | "fc" -> HFinishCycle | s -> failwith ("bad how " ^ s)

let mop_of = function
  | ["alloc"; r; k; ns; nw] -> MAlloc (nat r, kind_of k, nat ns, nat nw)
  | ["loadroot"; r; i] -> MLoadRoot (nat r, nat i)
  | ["loadrootw"; w; i] -> MLoadRootW (nat w, nat i)
  | ["load"; r; p; i] -> MLoad (nat r, nat p, nat i)
  | ["loadw"; w; p; i] -> MLoadW (nat w, nat p, nat i)
  | ["store"; p; i; c] -> MStore (nat p, nat i, opt nat c)
  | ["storew"; p; i; w] -> MStoreW (nat p, nat i, opt nat w)
  | ["onceinit"; p; c] -> MOnceInit (nat p, nat c)
  | ["rootset"; i; c] -> MRootSet (nat i, opt nat c)
  | ["rootsetw"; i; w] -> MRootSetW (nat i, opt nat w)
  | ["downgrade"; w; r] -> MDowngrade (nat w, nat r)
  | ["upgrade"; r; w] -> MUpgrade (nat r, nat w)
  | ["isdropped"; w] -> MIsDropped (nat w)
  | ["barb"; p; c] -> MBarrierB (nat p, opt nat c)
  | ["barbw"; p; w] -> MBarrierBW (nat p, nat w)
  | ["barf"; p; c] -> MBarrierF (opt nat p, nat c)
  | ["barfw"; p; w] -> MBarrierFW (opt nat p, nat w)
  | ["rawstore"; p; i; c] -> MRawStore (nat p, nat i, nat c)
  | ["rawstorew"; p; i; w] -> MRawStoreW (nat p, nat i, nat w)
  | ["stash"; h; s; c] -> MStash (nat h, nat s, nat c)
  | ["fetch"; r; s; h] -> MFetch (nat r, nat s, nat h)
  | ["isdead"; r] -> MIsDead (nat r)
  | ["isdeadw"; w] -> MIsDeadW (nat w)
  | ["resurrect"; r] -> MResurrect (nat r)
  | ["resurrectw"; r; w] -> MResurrectW (nat r, nat w)
  | ["move"; r; r'] -> MMove (nat r, nat r')
  | ["clear"; r] -> MClear (nat r)
  | ["clearw"; w] -> MClearW (nat w)
  | ["ptreq"; a; b] -> MPtrEq (nat a, nat b)
  | ["allocw"; r; k; s0; s1; s2; w0; w1] ->
    MAllocWith (nat r, kind_of k, [opt nat s0; opt nat s1; opt nat s2], [opt nat w0; opt nat w1])
  | l -> failwith ("bad micro op: " ^ String.concat " " l)

let op_of_line line =
  match List.filter (fun s -> s <> "") (String.split_on_char ' ' (String.trim line)) with
  | ["begin"; a; k] -> OBegin (nat a, cbkind_of k)
  | "m" :: rest -> OMicro (mop_of rest)
  | ["end"] -> OEnd
  | ["enderr"] -> OEndErr
  | ["panic"] -> OPanic
  | ["collect"; a; h] -> OCollect (nat a, how_of h, None)
  | ["collect"; a; h; k; j] -> OCollect (nat a, how_of h, Some (nat k, nat j))
  | ["startsweep"; a; f] -> OStartSweep (nat a, f = "1")
  | ["droparena"; a] -> ODropArena (nat a)
  | ["adjust"; a; q] -> OAdjustDebt (nat a, q_of_string q)
  | ["pacing"; a; sl; mn; mk; tr; kp; dr; fr] ->
    OSetPacing (nat a, { sleep_f = q_of_string sl; min_sleep = n_of_int (int_of_string mn);
                         mark_f = q_of_string mk; trace_f = q_of_string tr; keep_f = q_of_string kp;
                         drop_f = q_of_string dr; free_f = q_of_string fr })
  | ["cloneh"; h'; h] -> OCloneH (nat h', nat h)
  | ["droph"; h] -> ODropH (nat h)
  | l -> failwith ("bad op: " ^ String.concat " " l)

(* Input: scripts separated by lines "#script <name>"; an op line may carry a trailing
   " | ..." (a harness trace line) which is ignored. Output mirrors the structure. *)
let () =
  let w = ref world_init in
  (try
     while true do
       let line = input_line stdin in
       if String.length line > 0 && line.[0] = '#' then begin
         (* only a "#script" header starts a new world; other comment lines ("#next", "#alarm", ...) are echoed *)
         if String.length line >= 7 && String.sub line 0 7 = "#script" then w := world_init;
         print_endline line
       end else if String.trim line <> "" then begin
         let optext = match String.index_opt line '|' with
           | Some i -> String.trim (String.sub line 0 i) | None -> String.trim line in
         let o = op_of_line optext in
         let (w1, r) = step !w o in
         print_string optext; print_string " | "; print_endline (string_of_coq (render_step !w o w1 r));
         w := w1
       end
     done
   with End_of_file -> ())
