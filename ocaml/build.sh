#!/bin/sh
# Extract the model and build the replay driver into /verif/.build/ocaml/driver
set -e
OUT=/verif/.build/ocaml
mkdir -p $OUT
cd /verif/coq
cp Extract/Extract.v $OUT/Extract.v
( cd $OUT && coqc -q -Q /verif/coq GA Extract.v >/dev/null )
cp /verif/ocaml/driver.ml $OUT/
cd $OUT
ocamlfind ocamlopt -O2 -w -a model.mli model.ml driver.ml -o driver 2>/dev/null || ocamlfind ocamlopt -w -a model.mli model.ml driver.ml -o driver
