#!/bin/sh
# Extract the model and build the replay driver into <verif>/.build/ocaml/driver
set -e
ROOT=$(cd "$(dirname "$0")/.." && pwd)
OUT=$ROOT/.build/ocaml
mkdir -p "$OUT"
cp "$ROOT/coq/Extract/Extract.v" "$OUT/Extract.v"
( cd "$OUT" && coqc -q -Q "$ROOT/coq" GA Extract.v >/dev/null )
cp "$ROOT/ocaml/driver.ml" "$OUT/"
cd "$OUT"
ocamlfind ocamlopt -O2 -w -a model.mli model.ml driver.ml -o driver 2>/dev/null || ocamlfind ocamlopt -w -a model.mli model.ml driver.ml -o driver
