// F2 (C13): Write::from_mut(&mut &T).as_deref() forges an unbarriered &Write<T> from safe code.
use gc_arena::{barrier::Write, lock::RefLock, Arena, Collect, Gc, Rootable};
#[derive(Collect)]
#[collect(no_drop)]
struct Holder<'gc> { slot: RefLock<Option<Gc<'gc, String>>> }
fn main() {
    let mut arena = Arena::<Rootable![Gc<'_, Holder<'_>>]>::new(|mc| Gc::new(mc, Holder { slot: RefLock::new(None) }));
    arena.finish_marking();
    arena.mutate(|mc, root| {
        let fresh = Gc::new(mc, String::from("this string is reachable from the root"));
        let mut shared: &RefLock<Option<Gc<String>>> = &root.as_ref().slot;
        let w: &Write<RefLock<Option<Gc<String>>>> = Write::from_mut(&mut shared).as_deref();
        *w.unlock().borrow_mut() = Some(fresh);
    });
    arena.finish_cycle();
    let n = arena.metrics().total_gc_count();
    println!("total_gc_count after cycle = {n} (2 expected: holder + string)");
    if n != 2 { println!("F2 REPRODUCED: reachable string was freed"); std::process::exit(1); }
}
