// F1 (C10/C06): backward barrier on a marked object of a non-tracing type underflows traced_gcs.
use gc_arena::{lock::RefLock, Arena, Gc, Rootable};
fn main() {
    let mut arena = Arena::<Rootable![Gc<'_, RefLock<i32>>]>::new(|mc| Gc::new(mc, RefLock::new(0)));
    arena.metrics().adjust_debt(1000.0);
    arena.finish_marking();
    let before = arena.metrics().allocation_debt();
    let r = std::panic::catch_unwind(std::panic::AssertUnwindSafe(|| {
        arena.mutate(|mc, root| { *root.borrow_mut(mc) += 1; });
    }));
    let after = arena.metrics().allocation_debt();
    println!("panicked={} debt_before={before} debt_after={after}", r.is_err());
    if r.is_err() || after < before { println!("F1 REPRODUCED"); std::process::exit(1); }
    println!("F1 not reproduced");
}
