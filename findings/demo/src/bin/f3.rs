// F3 (C19): ZstCache::alloc_zst::<T>() conjures a Gc<T> for an uninhabited T.
use gc_arena::{arena::rootless_mutate, zst_cache::ZstCache};
enum Void {}
fn main() {
    rootless_mutate(|mc| {
        let cache = ZstCache::<1>::new(mc);
        let p = cache.alloc_zst::<Void>();
        if p.is_some() { println!("F3 REPRODUCED: got Gc<Void>"); std::process::exit(1); }
    });
}
