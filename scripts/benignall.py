#!/usr/bin/env python3
"""Apply each behaviour-preserving refactoring of /verif/seeded-benign to /repo, run every property's quick check and
report which checks raise an alarm (none should: the properties still hold).  Usage: benignall.py [name-prefix ...]"""
import glob, os, subprocess, sys, time
ALL = ["C%02d" % i for i in range(1, 21)]
pats = sys.argv[1:]
res = {}
for p in sorted(glob.glob("/verif/seeded-benign/*.diff")):
    name = os.path.basename(p)[:-5]
    if pats and not any(name.startswith(x) for x in pats):
        continue
    t0 = time.time()
    r = subprocess.run(["python3", "/verif/scripts/seedtest.py", p] + ALL, text=True, stdout=subprocess.PIPE, stderr=subprocess.STDOUT)
    bad = []
    cur = None
    for l in r.stdout.split("\n"):
        if l.startswith("== "):
            cur = l.split()[1]
            if "rc=0" not in l:
                bad.append(cur)
        elif l.strip().startswith("VIOLATION") and cur:
            bad.append("  " + l.strip()[:200])
    res[name] = bad
    print("#### %s: %s (%.0fs)" % (name, "all 20 quiet" if not bad else "ALARMS: " + " ".join(bad), time.time() - t0), flush=True)
    if "refusing" in r.stdout:
        print(r.stdout[-500:])
print("benign patches: %d, with alarms: %d" % (len(res), sum(1 for b in res.values() if b)))
