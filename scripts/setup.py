#!/usr/bin/env python3
"""MANIFEST.setup_cmd: build everything the checks need from files on disk (offline)."""
import importlib, os, sys, time, traceback
sys.path.insert(0, os.path.dirname(os.path.abspath(__file__)))
import vlib

def main():
    t0 = time.time()
    failed = []
    done = set()
    for n in range(1, 21):
        name = "props.c%02d" % n
        try:
            mod = importlib.import_module(name)
        except ModuleNotFoundError:
            continue
        fn = getattr(mod, "setup", None)
        if fn is None or fn in done:
            continue
        key = getattr(mod, "SETUP_KEY", name)
        if key in done:
            continue
        done.add(key)
        try:
            vlib.log("[setup] %s ..." % key)
            fn()
        except Exception:
            traceback.print_exc()
            failed.append(key)
    vlib.log("[setup] finished in %.0fs; failed=%s" % (time.time() - t0, failed))
    sys.exit(1 if failed else 0)

if __name__ == "__main__":
    main()
