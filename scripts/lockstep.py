"""Lock-step correspondence (model vs. implementation traces) and the property oracles that are
evaluated on the IMPLEMENTATION's observed history (events, outputs, public counters), using only
the model's *spec view* (reachable ids R, weakly referenced ids W) as the reference.

Trace line:  <op> | <out ints> | <events> | A0{..} A1{..}|A1- ... | <ghost> [| R0=..;W0=.. ...]
"""
import re
from fractions import Fraction
from collections import Counter, defaultdict

ARENA_RE = re.compile(r"A(\d)(-|\{([^}]*)\})")
FIELDS_RE = re.compile(r"(\w+)=(\S*)")


class Line:
    __slots__ = ("raw", "op", "optext", "out", "ev", "arenas", "ghost", "spec", "idx")

    def __init__(self, raw, idx):
        self.raw = raw
        self.idx = idx
        parts = raw.split(" | ")
        while len(parts) < 6:
            parts.append("")
        self.optext = parts[0].strip()
        self.op = self.optext.split()
        self.out = [int(x) for x in parts[1].split()] if parts[1].strip() else []
        self.ev = parts[2].split()
        self.arenas = {}
        for m in ARENA_RE.finditer(parts[3]):
            i = int(m.group(1))
            if m.group(2) == "-":
                self.arenas[i] = None
            else:
                self.arenas[i] = dict(FIELDS_RE.findall(m.group(3)))
                self.arenas[i]["_raw"] = m.group(3)
        self.ghost = parts[4].strip()
        self.spec = {}
        for tok in parts[5].split():
            for kv in tok.split(";"):
                if "=" in kv:
                    k, v = kv.split("=", 1)
                    self.spec[k] = [int(x) for x in v.split(",") if x != ""]


def parse_trace(text):
    scripts, cur = [], None
    for raw in text.split("\n"):
        if not raw.strip():
            continue
        if raw.startswith("#script"):
            cur = {"name": raw[len("#script"):].strip(), "lines": [], "alarms": []}
            scripts.append(cur)
        elif raw.startswith("#alarm"):
            if cur is not None:
                cur["alarms"].append(raw[len("#alarm"):].strip())
        elif raw.startswith("#"):
            continue
        else:
            if cur is None:
                cur = {"name": "stdin", "lines": [], "alarms": []}
                scripts.append(cur)
            cur["lines"].append(Line(raw, len(cur["lines"])))
    return scripts


def heap_part(a):
    """colours / list / cursors / queues / phase / root flag (everything before the metrics)"""
    if a is None:
        return None
    return a["_raw"].split(" m=")[0]


def all_objs(a):
    """[(id, colour, ntr, live)] in list order"""
    res = []
    if a is None or not a.get("all"):
        return res
    for t in a["all"].split(","):
        i, f = t.split(":")
        res.append((int(i) if i.isdigit() else i, f[0], f[1] == "1", f[2] == "1" if len(f) > 2 else None))
    return res


def scaled_val(s):
    """q values: integer in units of 1/4096, or None when inexact"""
    try:
        return int(s)
    except ValueError:
        return None


def compare_line(li, lm):
    """Return a list of (component, impl, model) for every differing component."""
    diffs = []
    if li.optext != lm.optext:
        return [("op", li.optext, lm.optext)]
    if li.out != lm.out:
        diffs.append(("out", li.out, lm.out))
    mev = [e for e in lm.ev if not e.startswith("d")]
    if li.ev != mev:
        diffs.append(("events", li.ev, mev))
    for i in sorted(set(li.arenas) | set(lm.arenas)):
        ai, am = li.arenas.get(i), lm.arenas.get(i)
        if (ai is None) != (am is None):
            diffs.append(("arena-existence", i, (ai is None, am is None)))
            continue
        if ai is None:
            continue
        if heap_part(ai) != heap_part(am):
            diffs.append(("heap", heap_part(ai), heap_part(am)))
        if ai.get("m") != am.get("m") or ai.get("dp") != am.get("dp"):
            diffs.append(("metrics", (ai.get("m"), ai.get("dp")), (am.get("m"), am.get("dp"))))
        qi, qm = ai.get("q", ""), am.get("q", "")
        if qi != qm:
            # inexact f64 values (non-dyadic pacing) are compared through `dp` only
            ok = True
            for x, y in zip(qi.split(","), qm.split(",")):
                if x != y and not x.startswith("f"):
                    ok = False
            if not ok or len(qi.split(",")) != len(qm.split(",")):
                diffs.append(("qvalues", qi, qm))
    if lm.ghost:
        diffs.append(("model-ghost", "", lm.ghost))
    return diffs


# which properties lose their tie when a component diverges (DESIGN section 3.4)
COMPONENT_PROPS = {
    "op": ["C01", "C02", "C03", "C04", "C05", "C06", "C07", "C08", "C09", "C10", "C11", "C14", "C20"],
    "out": ["C01", "C02", "C05", "C06", "C07", "C08", "C11", "C14", "C20"],
    "events": ["C01", "C02", "C03", "C04", "C05", "C06", "C07", "C11", "C14", "C20"],
    "arena-existence": ["C01", "C04", "C11", "C20"],
    "heap": ["C01", "C02", "C03", "C04", "C05", "C06", "C07", "C08", "C11", "C14", "C20"],
    "metrics": ["C09", "C10"],
    "qvalues": ["C09", "C10"],
    "model-ghost": ["C01", "C05", "C10"],
}


def compare_script(si, sm):
    """First divergence of a script: (line index, diffs) or None."""
    n = min(len(si["lines"]), len(sm["lines"]))
    for k in range(n):
        d = compare_line(si["lines"][k], sm["lines"][k])
        if d:
            return k, d
    if len(si["lines"]) != len(sm["lines"]):
        return n, [("op", "length %d" % len(si["lines"]), "length %d" % len(sm["lines"]))]
    return None


# ----------------------------------------------------------------------------------------------
# Property oracles on the implementation's history
# ----------------------------------------------------------------------------------------------
TAGGED = {"node", "leaf", "struct"}
DEFAULT_PACING = dict(sleep=Fraction(1, 2), min=256, mark=Fraction(1, 10), trace=Fraction(4, 10), keep=Fraction(5, 100), drop=Fraction(2, 10), free=Fraction(3, 10))
CB_DESTROYING = {"new", "trynew", "maproot", "trymaproot"}


class ArenaHist:
    def __init__(self):
        self.alloc = {}          # id -> kind
        self.dropped = set()
        self.freed = set()
        self.drop_count = Counter()
        self.free_count = Counter()


def op_arena(line, cur):
    o = line.op
    if not o:
        return None
    if o[0] in ("collect", "startsweep", "droparena", "adjust", "pacing"):
        return int(o[1])
    if o[0] == "begin":
        return int(o[1])
    if o[0] in ("m", "end", "enderr", "panic"):
        return cur[0] if cur else None
    return None


def run_oracles(si, sm, viol, cover):
    """si: implementation script trace, sm: model trace of the same script (for R/W sets only).
    viol(prop, key, desc, line_idx) records a violation; cover is a Counter of coverage cells."""
    hist = defaultdict(ArenaHist)        # arena index -> history (reset when the arena is re-created)
    cur = None                           # (arena, cbkind, entered)
    prev = None                          # previous impl line
    prev_m = None
    fin_state = None                     # finalize bookkeeping
    last_fc = {}                         # arena -> index of last clean finish_cycle
    mutated_since = defaultdict(lambda: True)
    resurrected = defaultdict(set)       # arena -> ids resurrected in the running cycle
    upgraded = defaultdict(set)
    pac = {}
    gen = defaultdict(int)
    hnd = {}
    stashed_ever = {}
    n = min(len(si["lines"]), len(sm["lines"]))
    for k in range(n):
        li, lm = si["lines"][k], sm["lines"][k]
        o = li.op
        a = op_arena(li, cur)
        skipped = li.out == [-2]
        pre = prev.arenas.get(a) if (prev is not None and a is not None) else None
        post = li.arenas.get(a) if a is not None else None
        R_pre = set(prev_m.spec.get("R%d" % a, [])) if (prev_m is not None and a is not None) else set()
        R_post = set(lm.spec.get("R%d" % a, [])) if a is not None else set()
        W_post = set(lm.spec.get("W%d" % a, [])) if a is not None else set()
        h = hist[a] if a is not None else None

        # ---- bookkeeping of allocations and events --------------------------------------
        if o[0] == "m" and o[1] in ("alloc", "allocw") and not skipped:
            h.alloc[li.out[0]] = o[3]
        for e in li.ev:
            kind, rest = e[0], e[1:]
            if "!" in rest:
                viol("C04", None, "allocator fault on object: %s" % e, k)
                rest = rest.split("!")[0]
            x = int(rest)
            if kind == "D":
                h.drop_count[x] += 1
                if x in h.dropped:
                    viol("C04", None, "value of object %d destructed twice" % x, k)
                if x in h.freed:
                    viol("C04", None, "value of object %d destructed after its block was released" % x, k)
                h.dropped.add(x)
            else:
                h.free_count[x] += 1
                if x in h.freed:
                    viol("C04", None, "block of object %d released twice" % x, k)
                if h.alloc.get(x) in TAGGED and x not in h.dropped:
                    viol("C04", None, "block of object %d released without destructing its value" % x, k)
                h.freed.add(x)

        # ---- C03: nothing is reclaimed while a callback runs ----------------------------------
        in_cb_line = (o[0] == "m") or (o[0] in ("end", "enderr", "panic") and cur is not None)
        destroying = (o[0] in ("panic", "enderr") and cur is not None and cur[1] in CB_DESTROYING
                      and (o[0] == "panic" or cur[1] in ("trynew", "trymaproot")))
        if (in_cb_line or o[0] == "begin") and li.ev and not destroying:
            viol("C03", None, "events %s while a callback is running (%s)" % (li.ev, li.optext), k)
        if in_cb_line and not destroying:
            cover["C03:cb-lines"] += 1

        # ---- C01: nothing strongly reachable is destructed or released ------------------------
        if li.ev and not destroying and o[0] in ("collect", "startsweep"):
            for e in li.ev:
                x = int(e[1:].split("!")[0])
                if x in R_pre:
                    viol("C01", None, "object %d is strongly reachable from the root but %s by `%s`" % (
                        x, "destructed" if e[0] == "D" else "released", li.optext), k)
            cover["C01:collections-with-events"] += 1
        # a load returned a pointer whose object was already destructed/released
        if o[:2] in (["m", "load"], ["m", "loadroot"], ["m", "fetch"], ["m", "upgrade"]) and not skipped:
            got = li.out[-1] if o[1] == "fetch" else (li.out[0] if o[1] != "upgrade" else None)
            if got is not None and got >= 0 and (got in h.freed or (h.alloc.get(got) in TAGGED and got in h.dropped)):
                viol("C01", None, "`%s` produced a pointer to object %d which was already %s" % (
                    li.optext, got, "released" if got in h.freed else "destructed"), k)

        # ---- C05: weak pointers ----------------------------------------------------------------
        if o[:2] == ["m", "upgrade"] and not skipped:
            b, x = li.out[0] == 1, li.out[1]
            ph = pre.get("p") if pre else "?"
            dead = x in h.dropped or x in h.freed
            cover["C05:upgrade:phase%s:%s:%s" % (ph, "reach" if x in R_pre else "unreach", "ok" if b else "fail")] += 1
            if x in h.freed:
                viol("C05", None, "upgrade queried object %d whose block was already released" % x, k)
            if x in R_pre and not b:
                viol("C05", None, "upgrade failed for strongly reachable object %d (phase %s)" % (x, ph), k)
            if b and h.alloc.get(x) in TAGGED and x in h.dropped:
                viol("C05", None, "upgrade succeeded for object %d whose value was already destructed" % x, k)
            if not b and not dead and ph != "2" and h.alloc.get(x) in TAGGED:
                viol("C05", None, "upgrade failed for undestructed object %d outside Sweeping (phase %s)" % (x, ph), k)
            if b:
                upgraded[a].add(x)
        if o[:2] == ["m", "isdropped"] and not skipped:
            b, x = li.out[0] == 1, li.out[1]
            cover["C05:isdropped:%d" % b] += 1
            if x in h.freed:
                viol("C05", None, "is_dropped queried object %d whose block was already released" % x, k)
            if h.alloc.get(x) in TAGGED and b != (x in h.dropped):
                viol("C05", None, "is_dropped(%d) = %s but its destructor %s run" % (x, b, "has" if x in h.dropped else "has not"), k)
        # an object obtained by upgrade during this callback must not be destructed by the running
        # collection unless it became unreachable again: checked by C01's oracle once it is stored.

        # ---- C08 / C09: per-call contracts on the observable phase ------------------------------
        if o[0] == "collect" and not skipped and pre is not None and post is not None:
            how, faulted = o[2], li.out[0] == 1
            cp0, cp1 = int(pre["cp"].split("!")[0]), int(post["cp"].split("!")[0])
            if "!" in post["cp"]:
                viol("C08", None, "Arena::collection_phase disagrees with the collector state: %s" % post["cp"], k)
            dp1 = post["dp"] == "1"
            cover["C08:%s:from%d:dp%s" % (how, cp0, pre["dp"])] += 1
            # C09 (sleep clause): a collection call entered with ZERO debt only does collection work (credits grow, debits
            # do not), and a cycle that ends with zero debt carries none over: the debt must still read zero afterwards
            # (in particular: asleep, nothing allocated since, no phantom debt)
            dz0, dz1 = scaled_val(pre["q"].split(",")[2]), scaled_val(post["q"].split(",")[2])
            if not faulted and dz0 == 0 and pre["dp"] == "0" and dz1 is not None and dz1 > 0:
                viol("C09", None, "%s was entered with zero allocation debt and returned with debt %d (/4096) in phase %d: a cycle that "
                                  "finished with no debt carried over reports phantom debt" % (how, dz1, cp1), k)
            cover["C09:zero-debt-stays-zero:%s" % ("checked" if (not faulted and dz0 == 0) else "n/a")] += 1
            if not faulted:
                if how in ("md", "fm"):
                    if cp0 == 3 and heap_part(pre) != heap_part(post):
                        viol("C08", None, "%s changed a Sweeping arena" % how, k)
                    if cp0 == 2 and cp1 != 2:
                        viol("C08", None, "%s left the Marked phase (to %d)" % (how, cp1), k)
                    if cp1 == 3 and cp0 != 3:
                        viol("C08", None, "%s entered Sweeping" % how, k)
                    if li.ev:
                        viol("C08", None, "%s destructed/released objects" % how, k)
                    ret = li.out[1] == 1
                    if how == "fm" and ret != (cp0 != 3):
                        viol("C08", None, "finish_marking returned %s from phase %d" % (ret, cp0), k)
                    if ret != (cp1 == 2):
                        viol("C08", None, "%s returned MarkedArena=%s but ends in phase %d" % (how, ret, cp1), k)
                    if how == "md" and dp1 and cp1 not in (2, 3):
                        viol("C09", None, "mark_debt returned with positive debt in phase %d" % cp1, k)
                if how == "fc" and cp1 != 0:
                    viol("C08", None, "finish_cycle ended in phase %d" % cp1, k)
                if how in ("cyd", "fc") and cp0 == 3 and cp1 in (1, 2):
                    viol("C08", None, "%s passed from Sweeping into a new marking phase in one call" % how, k)
                if how in ("cyd", "fc") and cp0 == 3 and cp1 == 3:
                    # still Sweeping: it must be the SAME sweep. Within one sweep the per-cycle counters allocated,
                    # marked and traced do not change and dropped, freed, remembered only grow; finish_cycle resets all
                    # of them and a marking phase changes marked/traced, so any other change proves a hidden
                    # Sweeping -> Sleeping -> Marking -> Sweeping passage inside the call.
                    m0 = [int(x) for x in pre["m"].split(",")]
                    m1 = [int(x) for x in post["m"].split(",")]
                    if m1[1] != m0[1] or m1[4] != m0[4] or m1[5] != m0[5] or m1[2] < m0[2] or m1[3] < m0[3] or m1[6] < m0[6]:
                        viol("C08", None, "%s passed from Sweeping through a whole new marking phase into the next sweep in one call "
                                          "(per-cycle counters %s -> %s)" % (how, pre["m"], post["m"]), k)
                if how == "cd" and dp1:
                    viol("C09", None, "collect_debt returned with positive allocation debt", k)
                if how == "cyd" and dp1 and cp1 != 0:
                    viol("C09", None, "cycle_debt returned with positive debt in phase %d" % cp1, k)
                if how in ("cd", "md", "cyd") and pre["dp"] == "0" and pre["_raw"] != post["_raw"]:
                    viol("C09", None, "%s did work although the allocation debt was zero" % how, k)
                # sweeping begins only from a fully marked arena
                if cp1 == 3 and cp0 == 1 and how in ("md", "fm"):
                    viol("C08", None, "sweeping began from a marking arena in %s" % how, k)
        if o[0] == "startsweep" and not skipped and post is not None:
            if li.out[0] == 1 and int(post["cp"].split("!")[0]) != 3:
                viol("C08", None, "start_sweeping did not end Sweeping", k)
        # callbacks change the observable phase only Marked -> Marking
        if in_cb_line and o[0] == "m" and pre is not None and post is not None and not skipped:
            cp0, cp1 = int(pre["cp"].split("!")[0]), int(post["cp"].split("!")[0])
            if cp0 != cp1 and not (cp0 == 2 and cp1 == 1):
                viol("C08", None, "a callback operation changed the phase %d -> %d (%s)" % (cp0, cp1, li.optext), k)

        # ---- C09: work credited never exceeds rho per object of the cycle ------------------------
        if o[0] == "pacing" and not skipped:
            fr = lambda t: Fraction(t)
            pac[int(o[1])] = dict(sleep=fr(o[2]), min=int(o[3]), mark=fr(o[4]), trace=fr(o[5]), keep=fr(o[6]), drop=fr(o[7]), free=fr(o[8]))
        if o[0] == "begin" and o[2] in ("new", "trynew") and not skipped:
            pac[int(o[1])] = dict(DEFAULT_PACING)
        if post is not None and a in pac:
            P = pac[a]
            tot, alloc_c, dropped_c, freed_c, marked_c, traced_c, rem_c = [int(x) for x in post["m"].split(",")]
            rho = max(P["mark"] + P["trace"] + P["keep"], P["drop"] + P["free"], P["mark"] + P["drop"] + P["keep"])
            credits = marked_c * P["mark"] + traced_c * P["trace"] + rem_c * P["keep"] + dropped_c * P["drop"] + freed_c * P["free"]
            if min(P["mark"], P["trace"], P["keep"], P["drop"], P["free"]) >= 0 and credits > rho * (tot + freed_c):
                viol("C09", None, "collector work credited (%s) exceeds rho (%s) per object of this cycle (%d objects): debt is paid without work, cycles need not complete" % (credits, rho, tot + freed_c), k)
            if post["p"] == "1":
                objs = all_objs(post)
                nb = sum(1 for (_, c, _, _) in objs if c == "B")
                nbt = sum(1 for (_, c, t, _) in objs if c == "B" and t)
                if traced_c > nb:
                    viol("C09", None, "trace work credited for %d objects but only %d are traced (black): a re-queued object keeps its trace credit" % (traced_c, nb), k)
                if traced_c < nbt:
                    viol("C10", None, "trace credit (%d) is lower than the number of traced objects (%d): a later write barrier underflows the counter" % (traced_c, nbt), k)
            # the counting invariant CInv (proved for the model: C09_counting_invariant), read off the implementation:
            # marking: `marked` is exactly the number of non-white objects and nothing has been swept;
            # sweeping: marked = remembered + non-white objects not yet swept; asleep: all work counters are zero
            objs = all_objs(post)
            if post["p"] == "1":
                nw = sum(1 for (_, c, _, _) in objs if c != "W")
                if marked_c != nw:
                    viol("C09", None, "while marking, mark work is credited for %d objects but %d objects are marked (non-white): "
                                      "an object earns the mark credit more or less than once" % (marked_c, nw), k)
                if dropped_c or freed_c or rem_c:
                    viol("C09", None, "sweep work (dropped %d, freed %d, remembered %d) is credited while marking" % (dropped_c, freed_c, rem_c), k)
            elif post["p"] == "2":
                ids = [i for (i, _, _, _) in objs]
                sw = post.get("sw", "-")
                uns = objs[ids.index(int(sw)):] if sw != "-" and int(sw) in ids else []
                nwu = sum(1 for (_, c, _, _) in uns if c != "W")
                nbu = sum(1 for (_, c, _, _) in uns if c == "B")
                if marked_c != rem_c + nwu:
                    viol("C09", None, "while sweeping, marked (%d) differs from remembered (%d) + marked objects not yet swept (%d)" % (marked_c, rem_c, nwu), k)
                if traced_c > nbu + rem_c:
                    viol("C09", None, "while sweeping, traced (%d) exceeds traced objects not yet swept (%d) + kept (%d)" % (traced_c, nbu, rem_c), k)
                if dropped_c > freed_c + rem_c:
                    viol("C09", None, "while sweeping, dropped (%d) exceeds freed (%d) + kept (%d)" % (dropped_c, freed_c, rem_c), k)
            elif post["p"] == "0":
                if marked_c or traced_c or dropped_c or freed_c or rem_c:
                    viol("C09", None, "work counters are not reset while asleep: %s" % post["m"], k)
            cover["C09:credit-bound-checks"] += 1

        # ---- C10: metrics are truthful ---------------------------------------------------------
        if post is not None and h is not None:
            tot = int(post["m"].split(",")[0])
            expect = len(set(h.alloc) - h.freed)
            if tot != expect:
                viol("C10", None, "total_gc_count = %d but %d Gc allocations are outstanding (`%s`)" % (tot, expect, li.optext), k)
            dq = post["q"].split(",")
            debt = scaled_val(dq[2])
            if debt is not None and debt < 0:
                viol("C10", None, "allocation_debt is negative", k)
            if dq[2].startswith("f"):
                bits = int(dq[2][1:], 16)
                if (bits >> 52) & 0x7FF == 0x7FF:
                    viol("C10", None, "allocation_debt is not finite", k)
                if bits >> 63:
                    viol("C10", None, "allocation_debt is negative", k)
            if tot == 0 and post["dp"] == "1":
                viol("C10", None, "positive debt for an arena holding no allocations", k)
            if pre is not None and not skipped:
                d0, d1 = scaled_val(pre["q"].split(",")[2]), debt
                if o[0] == "adjust" and d0 is not None and d1 is not None and d0 > 0:
                    num, _, den = o[2].partition("/")
                    x = int(num) * 4096 // int(den or 1)
                    if x >= 0 and d1 != d0 + x:
                        viol("C10", None, "adjust_debt(%s) moved a positive debt from %d to %d (/4096)" % (o[2], d0, d1), k)
                    # an explicit negative adjustment pays debt exactly (non-negative work factors: credits >= 0)
                    Pa = pac.get(a)
                    if x < 0 and int(num) * 4096 % int(den or 1) == 0 and Pa is not None and min(Pa["mark"], Pa["trace"], Pa["keep"], Pa["drop"], Pa["free"]) >= 0:
                        want = max(d0 + x, 0)
                        if d1 != want:
                            viol("C10", None, "adjust_debt(%s) moved a positive debt from %d to %d (/4096), expected %d: an explicit "
                                              "adjustment is not applied exactly" % (o[2], d0, d1, want), k)
                if o[0] == "m" and d0 is not None and d1 is not None and d1 < d0 and pre["m"].split(",")[0] != "0":
                    # only first-marking forward barriers / resurrect may pay debt inside a callback (F4)
                    m0, m1 = pre["m"].split(","), post["m"].split(",")
                    only_marked = (m0[:4] == m1[:4] and m0[5:] == m1[5:] and int(m1[4]) == int(m0[4]) + 1)
                    # F4 is the FIRST marking of an object: exactly one object left colour White in this operation
                    # (an object that was already weakly marked must not earn the credit again)
                    c0 = {i: c for (i, c, _, _) in all_objs(pre)}
                    first_marked = [i for (i, c, _, _) in all_objs(post) if c0.get(i) == "W" and c != "W"]
                    remarked = [i for (i, c, _, _) in all_objs(post) if c0.get(i) == "w" and c in "GB"]
                    if o[1] in ("barf", "barfw", "resurrect", "resurrectw") and only_marked and len(first_marked) == 1 and not remarked:
                        viol("C10", "C10-F4-first-marking-barrier-credits-debt",
                             "allocation_debt decreased inside a callback by `%s` (first marking credits mark_factor)" % li.optext, k)
                    else:
                        viol("C10", None, "allocation_debt decreased from %d to %d (/4096) inside a callback by `%s`" % (d0, d1, li.optext), k)
        if o[0] in ("droparena",) and not skipped:
            if li.out and li.out[0] != 0:
                viol("C10", None, "Gc count reads %d after the arena was dropped" % li.out[0], k)
        if destroying and li.out and li.out[0] != 0:
            viol("C11", None, "Gc count reads %d after a failed constructor / map_root" % li.out[0], k)

        # ---- C04: at arena death every value destructed once, every block released once ---------
        if (o[0] == "droparena" and not skipped) or destroying:
            for x, kd in h.alloc.items():
                if h.free_count[x] != 1:
                    viol("C04" if o[0] == "droparena" else "C11", None,
                         "object %d: block released %d times over the arena's lifetime" % (x, h.free_count[x]), k)
                if kd in TAGGED and h.drop_count[x] != 1:
                    viol("C04" if o[0] == "droparena" else "C11", None,
                         "object %d: destructor ran %d times over the arena's lifetime" % (x, h.drop_count[x]), k)
            cover["C04:arena-deaths:phase%s" % (pre.get("p") if pre else "?")] += 1
            hist[a] = ArenaHist()

        # ---- C02: two finish_cycle calls with no mutation in between -----------------------------
        if o[0] == "collect" and o[2] == "fc" and not skipped and li.out[0] == 0 and len(o) == 3:
            if last_fc.get(a) == k - 1:
                not_freed = set(h.alloc) - h.freed
                for x in R_post - not_freed:
                    viol("C01", None, "reachable object %d is not allocated any more after two finish_cycle calls" % x, k)
                for x in not_freed - R_post:
                    if h.alloc[x] in TAGGED and x not in h.dropped:
                        viol("C02", None, "unreachable object %d survived two finish_cycle calls undestructed" % x, k)
                    if x not in W_post:
                        viol("C02", None, "object %d is unreachable and not weakly referenced from a reachable object, but its block is still allocated after two finish_cycle calls" % x, k)
                    # C14: "... and becomes collectable once the last such handle is dropped"
                    if x in stashed_ever.get((a, gen[a]), ()) and not any(v[0] == a and v[1] == gen[a] and v[3] == x for v in hnd.values()) \
                            and h.alloc[x] in TAGGED and x not in h.dropped:
                        viol("C14", None, "object %d was stashed, every DynamicRoot handle for it has been dropped and nothing else reaches it, "
                                          "but it survived two finish_cycle calls undestructed (it never becomes collectable)" % x, k)
                for x in R_post:
                    if x in h.dropped:
                        viol("C01", None, "reachable object %d was destructed" % x, k)
                sp = ((si["lines"][k - 2].arenas.get(a) or {}).get("cp", "?")) if k >= 2 else "?"
                cover["C02:double-finish-cycle:startphase%s" % sp] += 1
            last_fc[a] = k
        # ---- C05: is_dropped reports exactly whether the destructor has run ---------------------
        # (the target id is known from the model's register contents only through the correspondence;
        #  here: upgrade success must never yield a destructed object -> covered by the C01 load check)

        # ---- C07: finalization ------------------------------------------------------------------
        if o[0] == "begin" and o[2].startswith("finalize") and not skipped:
            fin_state = {"R": set(R_post), "mut": False, "entered": li.out[0] == 1,
                         "clean": not mutated_since[a]}
            cover["C07:finalize:entered%d:clean%d" % (li.out[0], fin_state["clean"])] += 1
            if li.out[0] == 1 and post is not None and int(post["cp"].split("!")[0]) != 2:
                viol("C07", None, "a MarkedArena was handed out in phase %s" % post["cp"], k)
        if fin_state is not None and fin_state["entered"] and o[0] == "m" and not skipped:
            if o[1] in ("isdead", "isdeadw"):
                b, x = li.out[0] == 1, li.out[1]
                cover["C07:isdead:%s:%s" % ("reach" if x in fin_state["R"] else "unreach", b)] += 1
                if x in h.freed:
                    viol("C07", None, "is_dead queried object %d whose block was already released" % x, k)
                if not fin_state["mut"] and x in fin_state["R"] and b:
                    viol("C07", None, "strongly reachable object %d reports is_dead in a freshly handed out MarkedArena" % x, k)
                if not fin_state["mut"] and fin_state["clean"] and x not in fin_state["R"] and not b:
                    viol("C07", None, "unreachable object %d does not report is_dead although nothing was mutated since marking began" % x, k)
            if o[1] in ("resurrect", "resurrectw"):
                b, x = li.out[0], li.out[1]
                if o[1] == "resurrectw" and h.alloc.get(x) in TAGGED and (b == 1) != (x not in h.dropped):
                    viol("C07", None, "GcWeak::resurrect(%d) returned %s but destructor %s run" % (x, "Some" if b else "None", "has" if x in h.dropped else "has not"), k)
                if o[1] == "resurrect" or b == 1:
                    resurrected[a].add(x)
                    if pre is not None and post is not None:
                        was_dead = any(i == x and c in "Ww" for (i, c, _, _) in all_objs(pre))
                        if was_dead and int(post["cp"].split("!")[0]) != 1:
                            viol("C07", None, "reviving dead object %d left the arena reporting phase %s" % (x, post["cp"]), k)
            if o[1] in ("store", "storew", "rawstore", "rawstorew", "alloc", "allocw", "resurrect", "resurrectw", "stash",
                        "onceinit", "barb", "barf", "barbw", "barfw"):
                fin_state["mut"] = True
        if o[0] in ("end", "enderr", "panic"):
            fin_state = None
        # resurrected objects are not destructed in this collection cycle.
        # collect_debt (Stop::Full) entered mid-cycle may finish the current cycle AND run into the next one inside a
        # single call (false alarm of check request 2): then only destructs that provably belong to the cycle of the
        # resurrection are charged (entered while Sweeping: the object lies in the unswept part of `all` and is
        # condemned there), and the set is forgotten unless the per-cycle `allocated` counter proves that no cycle
        # boundary was crossed (finish_cycle resets it to 0 and nothing is allocated during a collection call).
        may_cross = (o[0] == "collect" and len(o) > 2 and o[2] == "cd" and pre is not None
                     and int(pre["cp"].split("!")[0]) != 0)
        crossed = False
        if may_cross and post is not None:
            a0, a1 = int(pre["m"].split(",")[1]), int(post["m"].split(",")[1])
            crossed = not (a0 > 0 and a1 == a0)
        first_sweep = None
        if may_cross and crossed and pre["p"] == "2":
            objs = all_objs(pre)
            ids = [i for (i, _, _, _) in objs]
            sw = pre.get("sw", "-")
            if sw != "-" and int(sw) in ids:
                first_sweep = {i for (i, c, _, _) in objs[ids.index(int(sw)):] if c in "Ww"}
        for e in li.ev:
            if e[0] == "D" and a is not None and int(e[1:].split("!")[0]) in resurrected[a] and o[0] != "droparena" and not destroying:
                if may_cross and crossed and (first_sweep is None or int(e[1:].split("!")[0]) not in first_sweep):
                    cover["C07:resurrect:destruct-after-boundary-inside-collect_debt"] += 1
                    continue
                viol("C07", None, "object %s was resurrected in this cycle but destructed by `%s`" % (e[1:], li.optext), k)
        if post is not None and a is not None and (int(post["cp"].split("!")[0]) == 0 or (may_cross and crossed)):
            resurrected[a].clear()
        # "no mutation since marking of this cycle began"
        if a is not None and post is not None:
            if post["p"] == "0":
                mutated_since[a] = False
            elif o[0] in ("m", "begin") and not skipped and o[1] not in ("isdead", "isdeadw", "isdropped", "ptreq", "load", "loadw", "loadroot", "loadrootw", "move", "clear", "clearw", "downgrade", "upgrade", "fetch") and not o[2:3] == ["mutate"] and not (o[0] == "begin" and o[2].startswith("finalize")):
                mutated_since[a] = True

        # ---- C14: fetch identity / foreign handles ------------------------------------------------
        if o[0] == "begin" and o[2] in ("new", "trynew") and not skipped:
            gen[int(o[1])] += 1
        if o[:2] == ["m", "stash"] and not skipped:
            cover["C14:stash:phase%s" % (pre.get("p") if pre else "?")] += 1
            hnd[int(o[2])] = (a, gen[a], li.out[1], li.out[2])
            stashed_ever.setdefault((a, gen[a]), set()).add(li.out[2])
        if o[0] == "cloneh" and not skipped and int(o[2]) in hnd:
            hnd[int(o[1])] = hnd[int(o[2])]
        if o[0] == "droph" and not skipped:
            hnd.pop(int(o[1]), None)
        if o[:2] == ["m", "fetch"] and not skipped:
            ok, got, sid = li.out[0], li.out[1], li.out[2]
            owner = hnd.get(int(o[4]))
            mine_h = owner is not None and owner[0] == a and owner[1] == gen[a] and owner[2] == sid
            cover["C14:fetch:%s:%s" % ("own" if mine_h else ("otherarena" if owner and (owner[0] != a or owner[1] != gen[a]) else "otherset"), ok)] += 1
            if owner is not None:
                if ok == 1 and not mine_h:
                    viol("C14", None, "a DynamicRoot issued by %s was accepted by a different root set (arena %d, set object %d)" % (
                        "another arena" if (owner[0] != a or owner[1] != gen[a]) else "another set of the same arena", a, sid), k)
                    if owner[0] != a or owner[1] != gen[a]:
                        viol("C20", None, "a handle of another (possibly dropped) arena was accepted by arena %d" % a, k)
                if ok == 1 and mine_h and got != owner[3]:
                    viol("C14", None, "fetch returned object %d but object %d was stashed" % (got, owner[3]), k)
                if ok == 0 and mine_h:
                    viol("C14", None, "the set refused a live handle it issued itself", k)
                if ok == 1 and mine_h and (got in h.freed or (h.alloc.get(got) in TAGGED and got in h.dropped)):
                    viol("C14", None, "fetch returned object %d which was already destructed/released while its handle is alive" % got, k)

        # ---- C20: an op on one arena leaves every other arena's state untouched ---------------
        if prev is not None:
            for b, snap in li.arenas.items():
                if b == a:
                    continue
                ps = prev.arenas.get(b)
                if (snap is None) != (ps is None) or (snap is not None and snap["_raw"] != ps["_raw"]):
                    viol("C20", None, "`%s` (arena %s) changed the state of arena %d" % (li.optext, a, b), k)
            if len([x for x in li.arenas.values() if x is not None]) > 1:
                cover["C20:multi-arena-steps"] += 1

        # ---- coverage cells for C06 (path x phase x parent colour x child colour) ----------------
        if o[0] == "m" and not skipped and pre is not None and o[1] in (
                "store", "storew", "rawstore", "rawstorew", "barb", "barbw", "barf", "barfw", "stash", "onceinit", "rootset", "rootsetw"):
            cover["C06:%s:phase%s" % (o[1], pre["p"])] += 1

        # ---- callback tracking --------------------------------------------------------------
        if o[0] == "begin" and not skipped:
            cur = (int(o[1]), o[2], True)
        elif o[0] in ("end", "enderr", "panic") and cur is not None:
            cur = None
        for al in ():
            pass
        prev, prev_m = li, lm
    for al in si["alarms"]:
        if "double free" in al or "layout" in al or "not a live block" in al:
            viol("C04", None, "allocator: " + al, len(si["lines"]) - 1)
            viol("C17", None, "allocator: " + al, len(si["lines"]) - 1)
        elif "unexpected panic" in al:
            viol("C06", None, al, len(si["lines"]) - 1)
            viol("C10", None, al, len(si["lines"]) - 1)
            if "is_live" in al:
                # the collector met a destructed value while tracing: a destructed object is strongly reachable
                viol("C01", None, al + " (a destructed object is reachable: the collector traced it)", len(si["lines"]) - 1)
        elif "DynamicRootSet" in al:
            viol("C14", None, al, len(si["lines"]) - 1)
            if "ANOTHER arena" in al:
                viol("C20", None, al, len(si["lines"]) - 1)
        else:
            viol("C01", None, "harness alarm: " + al, len(si["lines"]) - 1)
