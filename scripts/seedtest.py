#!/usr/bin/env python3
"""Apply a seeded patch to /repo, run the given checks, undo the patch. Usage:
   seedtest.py <patch.diff> C01 C06 ...   (never commits anything in /repo)"""
import subprocess, sys, os, time
patch = os.path.abspath(sys.argv[1]); props = sys.argv[2:]
def sh(cmd, **kw): return subprocess.run(cmd, shell=True, text=True, stdout=subprocess.PIPE, stderr=subprocess.STDOUT, **kw)
st = sh("git -C /repo status --short")
if st.stdout.strip():
    print("refusing: /repo is dirty:\n" + st.stdout); sys.exit(2)
r = sh("git -C /repo apply %s" % patch)
if r.returncode != 0:
    print("patch does not apply:", r.stdout); sys.exit(2)
try:
    for p in props:
        t0 = time.time()
        r = sh("python3 /verif/scripts/check.py %s --tier %s" % (p, os.environ.get("TIER", "quick")), cwd="/verif")
        lines = [l for l in r.stdout.split("\n") if l.startswith(("VIOLATION", "OK ", "KNOWN-FINDING"))]
        print("== %s rc=%d %.0fs" % (p, r.returncode, time.time() - t0))
        for l in lines: print("   " + l[:300])
finally:
    sh("git -C /repo checkout -- .")
    print("repo restored:", sh("git -C /repo status --short").stdout.strip() or "clean")
