#!/usr/bin/env python3
"""Apply a seeded patch to /repo, run the given checks, undo the patch. Usage:
   seedtest.py <patch.diff> C01 C06 ...   (never commits anything in /repo)"""
import subprocess, sys, os, time
patch = os.path.abspath(sys.argv[1]); props = sys.argv[2:]
def sh(cmd, **kw): return subprocess.run(cmd, shell=True, text=True, stdout=subprocess.PIPE, stderr=subprocess.STDOUT, **kw)
st = sh("git -C /repo status --short")
if st.stdout.strip():
    print("refusing: /repo is dirty:\n" + st.stdout); sys.exit(2)
import shutil, glob
LOCK = "/verif/.build/REPO_PATCHED.lock"
if os.path.exists(LOCK):
    print("refusing: another seedtest holds", LOCK); sys.exit(2)
def busy_checks():
    """check.py processes that read /repo itself (those pointed at a scratch copy through VERIF_REPO do not count)"""
    out = []
    for l in sh("pgrep -af 'scripts/check.py'").stdout.split("\n"):
        f = l.split()
        if len(f) > 2 and f[1].endswith("python3") and "check.py" in f[2]:
            try:
                env = open("/proc/%s/environ" % f[0], "rb").read().split(b"\0")
            except Exception:
                continue
            vr = [e for e in env if e.startswith(b"VERIF_REPO=")]
            if vr and vr[0] != b"VERIF_REPO=/repo":
                continue
            out.append(l)
    return out
t_wait = time.time()
while busy_checks() and not os.environ.get("SEEDTEST_FORCE"):
    if time.time() - t_wait > 900:
        print("refusing: a check is running against /repo (it would see the patched tree):\n" + "\n".join(busy_checks())); sys.exit(2)
    time.sleep(5)
# evidence files are rewritten by every check: keep the unchanged-tree evidence aside while /repo is patched
EVB = "/verif/.build/evidence_backup"
shutil.rmtree(EVB, ignore_errors=True); os.makedirs(EVB)
for f in glob.glob("/verif/evidence/*.json"):
    shutil.copy(f, EVB)
open(LOCK, "w").write(str(os.getpid()))
r = sh("git -C /repo apply %s" % patch)
if r.returncode != 0:
    os.remove(LOCK)
    print("patch does not apply:", r.stdout); sys.exit(2)
os.environ["VERIF_SEEDTEST"] = "1"
try:
    for p in props:
        t0 = time.time()
        r = sh("python3 /verif/scripts/check.py %s --tier %s" % (p, os.environ.get("TIER", "quick")), cwd="/verif")
        lines = [l for l in r.stdout.split("\n") if l.startswith(("VIOLATION", "OK ", "KNOWN-FINDING"))]
        print("== %s rc=%d %.0fs" % (p, r.returncode, time.time() - t0))
        for l in lines: print("   " + l[:300])
finally:
    sh("git -C /repo checkout -- .")
    for f in glob.glob(EVB + "/*.json"):
        shutil.copy(f, "/verif/evidence/")
    if os.path.exists(LOCK):
        os.remove(LOCK)
    print("repo restored:", sh("git -C /repo status --short").stdout.strip() or "clean")
