#!/usr/bin/env python3
"""Harvest discriminating scripts into /verif/corpus: for every kept seeded change of a collector-core property,
apply it to /repo, run the lock-step pipeline + failing-input search for the properties it breaks, keep the shortest
concrete failing script per (seeded change, property) as corpus/<dir>-<pid>.script, restore /repo. The corpus is
replayed by every check of the core engine, whatever the seed (generator luck no longer decides whether a known
class of change is noticed). Never commits anything in /repo.   Usage: harvest_corpus.py [dirs...]"""
import json, os, subprocess, sys
V = os.path.dirname(os.path.dirname(os.path.abspath(__file__)))
sys.path.insert(0, os.path.join(V, "scripts"))
CORE = {"C01", "C02", "C03", "C04", "C05", "C06", "C07", "C08", "C09", "C10", "C11", "C14", "C20"}


def sh(cmd):
    return subprocess.run(cmd, shell=True, text=True, stdout=subprocess.PIPE, stderr=subprocess.STDOUT)


def main():
    if sh("git -C /repo status --short").stdout.strip():
        print("refusing: /repo is dirty"); sys.exit(2)
    ids = sys.argv[1:] or sorted(os.listdir(os.path.join(V, "seeded")))
    os.makedirs(os.path.join(V, "corpus"), exist_ok=True)
    from props import core
    import lockstep
    for d in ids:
        md = os.path.join(V, "seeded", d)
        if not os.path.exists(os.path.join(md, "patch.diff")):
            continue
        meta = json.load(open(os.path.join(md, "meta.json")))
        props = [p for p in (meta.get("breaks") or [meta["property"]]) if p in CORE]
        if not props:
            continue
        if sh("git -C /repo apply %s" % os.path.join(md, "patch.diff")).returncode != 0:
            print(d, "patch does not apply"); continue
        try:
            for seed in (1, 2, 3):
                res = core.run_lockstep("quick", seed)
                if res.get("fatal"):
                    print(d, "fatal", res["fatal"][:200]); break
                todo = [p for p in props if not os.path.exists(os.path.join(V, "corpus", "%s-%s.script" % (d, p)))]
                if not todo:
                    break
                for pid in todo:
                    vs = [v for v in res["violations"] if v["property"] == pid and v.get("key") is None]
                    if not vs:
                        mine = [x for x in res["divergences"] if any(pid in lockstep.COMPONENT_PROPS.get(c, []) for c in x["components"])]
                        vs = core.search_failing_input(pid, mine) if mine else []
                    vs = [v for v in vs if v.get("script_text")]
                    if not vs:
                        continue
                    best = min(vs, key=lambda v: len(v["script_text"]))
                    out = os.path.join(V, "corpus", "%s-%s.script" % (d, pid))
                    open(out, "w").write("# harvested from seeded/%s (seed %d): %s\n%s\n" % (d, seed, best["desc"][:200].replace("\n", " "), best["script_text"]))
                    print("%-6s %-4s seed %d: %d ops  (%s)" % (d, pid, seed, len(best["script_text"].split("\n")), best["desc"][:90]), flush=True)
        finally:
            sh("git -C /repo checkout -- .")
    print("repo:", sh("git -C /repo status --short").stdout.strip() or "clean")


if __name__ == "__main__":
    main()
