#!/usr/bin/env python3
"""Regression over every kept seeded mutation: apply seeded/<id>/patch.diff to /repo, run the checks named in
meta.json 'breaks' (quick tier), undo, and report which were caught (exit 1 + VIOLATION) and how.
Usage: seedall.py [ids...]   Never commits anything in /repo."""
import json, os, subprocess, sys, time
V = os.path.dirname(os.path.dirname(os.path.abspath(__file__)))
ids = sys.argv[1:] or sorted(os.listdir(os.path.join(V, "seeded")))
rows = []
for d in ids:
    md = os.path.join(V, "seeded", d)
    if not os.path.exists(os.path.join(md, "patch.diff")): continue
    meta = json.load(open(os.path.join(md, "meta.json")))
    props = meta.get("breaks") or [meta["property"]]
    r = subprocess.run([sys.executable, os.path.join(V, "scripts", "seedtest.py"), os.path.join(md, "patch.diff")] + props,
                       text=True, stdout=subprocess.PIPE, stderr=subprocess.STDOUT)
    cur = None; res = {}
    for l in r.stdout.split("\n"):
        if l.startswith("== "):
            cur = l.split()[1]; res[cur] = {"rc": l.split()[2], "concrete": 0, "nofail": 0}
        elif "VIOLATION" in l and cur:
            res[cur]["nofail" if "no-failing-input-found" in l else "concrete"] += 1
    for p in props:
        x = res.get(p, {})
        rows.append((d, p, x.get("rc"), x.get("concrete", 0), x.get("nofail", 0)))
        print("%-6s %-4s %-5s concrete=%d no-failing-input=%d %s" % (d, p, x.get("rc"), x.get("concrete", 0), x.get("nofail", 0),
              "" if x.get("rc") == "rc=1" else "  <-- MISSED"), flush=True)
    if "repo restored: clean" not in r.stdout:
        print("!! /repo not clean after", d); sys.exit(2)
json.dump(rows, open(os.path.join(V, ".build", "seedall.json"), "w"))
