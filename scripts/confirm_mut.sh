#!/bin/bash
# confirm a sub-agent's mutation in its scratch worktree: usage confirm_mut.sh <worktree> ; prints a summary
W=$1; cd $W || exit 2
export CARGO_NET_OFFLINE=true
git diff -- . ':!out' ':!PROPERTY.json' > /tmp/confirm_$$.diff
if ! diff -q <(grep -v '^index ' /tmp/confirm_$$.diff) <(grep -v '^index ' out/patch.diff) >/dev/null; then echo "NOTE: worktree diff differs from out/patch.diff"; fi
rm -f /tmp/confirm_$$.diff
echo "--- suite with patch"; cargo test --workspace --offline 2>&1 | grep -E '^test result|FAILED|error' | head -8
D=tests/zz_demo.rs; cp out/demo.rs $D
echo "--- demo with patch"; cargo test --offline --test zz_demo 2>&1 | grep -E '^test result|^test .*(FAILED|ok)|error(\[|:)' | head -12
git apply -R out/patch.diff || echo "REVERT FAILED"
echo "--- demo without patch"; cargo test --offline --test zz_demo 2>&1 | grep -E '^test result|^test .*(FAILED|ok)|error(\[|:)' | head -12
echo "--- demo release with/without skipped"
git apply out/patch.diff || echo "REAPPLY FAILED"
rm -f $D; rm -rf target derive/target Cargo.lock.bak
git status --short | head -5
