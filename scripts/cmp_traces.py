#!/usr/bin/env python3
"""Compare a harness trace with the model trace (same op lines). Prints divergences."""
import sys
def norm_model(l):
    parts = l.split(' | ')
    if len(parts) >= 3:
        parts[2] = ' '.join(t for t in parts[2].split() if not t.startswith('d'))
    return ' | '.join(parts).rstrip()
def main():
    a = [l for l in open(sys.argv[1]).read().split('\n') if not l.startswith('#alarm')]
    b = open(sys.argv[2]).read().split('\n')
    n = 0
    for i, (x, y) in enumerate(zip(a, b)):
        if x.rstrip() != norm_model(y):
            print("DIFF line", i); print(" impl :", x); print(" model:", y); n += 1
            if n > 3: break
    print("lines", len(a), len(b), "diffs", n)
main()
