"""Common machinery for the per-property checks (see DESIGN.md section 6).

Every check is `python3 scripts/check.py <Cnn> [--tier quick|thorough] [--replay path]`.
This module provides: subprocess helpers, Coq build/audit helpers, cargo helpers, a content hash of
/repo's sources (for caching shared harness runs), the evidence writer and the failure protocol.
"""
import hashlib, json, os, re, subprocess, sys, time

REPO = os.environ.get("VERIF_REPO", "/repo")
VERIF = os.path.dirname(os.path.dirname(os.path.abspath(__file__)))
BUILD = os.path.join(VERIF, ".build")
EVID = os.path.join(VERIF, "evidence")
REPLAYS = os.path.join(EVID, "replays")
NCPU = os.cpu_count() or 4
HOOK_CFG = "--cfg gc_arena_verif"

OFFLINE_ENV = {"CARGO_NET_OFFLINE": "true", "GOPROXY": "off", "PIP_NO_INDEX": "1"}


def log(*a):
    print(*a, file=sys.stderr, flush=True)


def run(cmd, timeout=600, cwd=None, env=None, input=None):
    """Run a command; returns (rc, stdout+stderr). rc=124 on timeout."""
    e = dict(os.environ)
    e.update(OFFLINE_ENV)
    if env:
        e.update(env)
    try:
        p = subprocess.run(cmd, cwd=cwd, env=e, input=input, timeout=timeout,
                           stdout=subprocess.PIPE, stderr=subprocess.STDOUT,
                           shell=isinstance(cmd, str), text=True, errors="replace")
        return p.returncode, p.stdout
    except subprocess.TimeoutExpired as ex:
        out = ex.stdout or ""
        if isinstance(out, bytes):
            out = out.decode(errors="replace")
        return 124, out + "\n[timeout after %ss]" % timeout


def repo_hash(extra=()):
    """Content hash of everything in /repo that a build depends on (working tree, not HEAD)."""
    h = hashlib.sha256()
    paths = []
    for root in ("src", "derive/src", "tests"):
        base = os.path.join(REPO, root)
        for dp, dn, fn in os.walk(base):
            dn.sort()
            for f in sorted(fn):
                paths.append(os.path.join(dp, f))
    for f in ("Cargo.toml", "Cargo.lock", "derive/Cargo.toml"):
        paths.append(os.path.join(REPO, f))
    for p in paths:
        try:
            with open(p, "rb") as fh:
                h.update(p.encode()); h.update(b"\0"); h.update(fh.read()); h.update(b"\0")
        except OSError:
            pass
    for x in extra:
        h.update(str(x).encode())
    return h.hexdigest()[:20]


def tree_hash(paths):
    """Content hash of files/directories under /verif (used to key caches on our own sources)."""
    h = hashlib.sha256()
    for p in paths:
        if os.path.isdir(p):
            for dp, dn, fn in os.walk(p):
                dn[:] = sorted(d for d in dn if d not in ("target", ".build", "__pycache__"))
                for f in sorted(fn):
                    fp = os.path.join(dp, f)
                    with open(fp, "rb") as fh:
                        h.update(fp.encode()); h.update(fh.read())
        elif os.path.exists(p):
            with open(p, "rb") as fh:
                h.update(p.encode()); h.update(fh.read())
    return h.hexdigest()[:20]


# ------------------------------------------------------------------------------------------
# Coq
# ------------------------------------------------------------------------------------------
FORBIDDEN = re.compile(r"\b(Admitted|admit|Axiom|Axioms|Parameter|Parameters|Conjecture|Conjectures|"
                       r"Admit\s+Obligations|bypass_check|Unset\s+Guard\s+Checking|"
                       r"Unset\s+Positivity\s+Checking|Unset\s+Universe\s+Checking|type-in-type|"
                       r"impredicative-set)\b")

# Standard-library axioms that a proof is allowed to depend on (each is named in the evidence).
ALLOWED_AXIOMS = {
    "Coq.Logic.FunctionalExtensionality.functional_extensionality_dep",
    "functional_extensionality_dep",
    "Coq.Logic.Classical_Prop.classic", "classic",
    "Coq.Logic.ProofIrrelevance.proof_irrelevance", "proof_irrelevance",
    "Coq.Logic.JMeq.JMeq_eq", "JMeq_eq", "Eqdep.Eq_rect_eq.eq_rect_eq", "eq_rect_eq",
}


def strip_coq_comments(src):
    out, depth, i = [], 0, 0
    while i < len(src):
        if src.startswith("(*", i):
            depth += 1; i += 2
        elif src.startswith("*)", i) and depth > 0:
            depth -= 1; i += 2
        else:
            if depth == 0:
                out.append(src[i])
            i += 1
    return "".join(out)


def coq_forbidden_scan(project_dir):
    """Return a list of 'file:line: text' for forbidden vernacular found outside comments.
    `Variable`/`Hypothesis` outside a Section are checked separately (cheap textual nesting)."""
    hits = []
    for dp, dn, fn in os.walk(project_dir):
        for f in sorted(fn):
            if not f.endswith(".v"):
                continue
            p = os.path.join(dp, f)
            src = strip_coq_comments(open(p, errors="replace").read())
            depth = 0
            for n, line in enumerate(src.split("\n"), 1):
                if FORBIDDEN.search(line):
                    hits.append("%s:%d: %s" % (p, n, line.strip()))
                if re.match(r"\s*Section\b", line):
                    depth += 1
                elif re.match(r"\s*End\b", line) and depth > 0:
                    depth -= 1
                elif depth == 0 and re.match(r"\s*(Variable|Variables|Hypothesis|Hypotheses|Context)\b", line):
                    hits.append("%s:%d: %s (outside Section)" % (p, n, line.strip()))
    return hits


def coq_makefile(project_dir):
    """(Re)generate _CoqProject-driven Makefile if needed. _CoqProject is committed or generated
    by the caller."""
    mk = os.path.join(project_dir, "Makefile")
    cp = os.path.join(project_dir, "_CoqProject")
    if (not os.path.exists(mk)) or os.path.getmtime(mk) < os.path.getmtime(cp):
        rc, out = run(["coq_makefile", "-f", "_CoqProject", "-o", "Makefile"], cwd=project_dir, timeout=60)
        if rc != 0:
            return False, out
    return True, ""


def coq_make(project_dir, targets=None, timeout=1500, jobs=None):
    """Full .vo build (never -vos) of the given targets (paths relative to project_dir, '.vo')."""
    ok, out = coq_makefile(project_dir)
    if not ok:
        return False, out
    cmd = ["make", "-j%d" % (jobs or NCPU)] + (targets or [])
    rc, out = run(cmd, cwd=project_dir, timeout=timeout)
    return rc == 0, out


def coq_print_assumptions(project_dir, logical, props_file, timeout=600):
    """Compile props_file (which must end each theorem with `Print Assumptions thm.`) with coqc,
    capturing its output, and return (ok, {theorem: [axioms]}, raw). The file's dependencies must
    already be built. The .vo is written next to the file (same as make would)."""
    rc, out = run(["coqc", "-q", "-Q", ".", logical, props_file], cwd=project_dir, timeout=timeout)
    if rc != 0:
        return False, {}, out
    src = strip_coq_comments(open(os.path.join(project_dir, props_file)).read())
    names = re.findall(r"Print\s+Assumptions\s+([A-Za-z0-9_'.]+)\s*\.", src)
    # Output blocks come in order: either "Closed under the global context" or "Axioms:\n name : ..."
    blocks = re.split(r"(?m)^(?=Closed under the global context|Axioms:)", out)
    blocks = [b for b in blocks if b.startswith("Closed under") or b.startswith("Axioms:")]
    res = {}
    for i, n in enumerate(names):
        if i >= len(blocks):
            res[n] = ["<no Print Assumptions output>"]
        elif blocks[i].startswith("Closed under"):
            res[n] = []
        else:
            ax = re.findall(r"(?m)^([A-Za-z0-9_'.]+)\s*:", blocks[i][len("Axioms:"):])
            res[n] = ax or ["<unparsed>"]
    return True, res, out


def coqchk(project_dir, logical, modules, timeout=3000):
    rc, out = run(["coqchk", "-silent", "-o", "-Q", ".", logical] + modules, cwd=project_dir, timeout=timeout)
    return rc == 0, out


# ------------------------------------------------------------------------------------------
# Cargo
# ------------------------------------------------------------------------------------------
def cargo_build(crate_dir, target_dir, release=False, hooks=True, features=None, bins=None,
                timeout=1200, extra_env=None):
    """Build a crate of ours (which depends on /repo by path) offline. Returns (ok, out, bin_dir)."""
    os.makedirs(target_dir, exist_ok=True)
    lock = os.path.join(crate_dir, "Cargo.lock")
    if not os.path.exists(lock):
        import shutil
        shutil.copy(os.path.join(REPO, "Cargo.lock"), lock)
    cmd = ["cargo", "build", "--offline", "--target-dir", target_dir]
    if release:
        cmd.append("--release")
    if features:
        cmd += ["--features", ",".join(features)]
    for b in bins or []:
        cmd += ["--bin", b]
    env = {"RUSTFLAGS": HOOK_CFG if hooks else ""}
    if extra_env:
        env.update(extra_env)
    rc, out = run(cmd, cwd=crate_dir, timeout=timeout, env=env)
    return rc == 0, out, os.path.join(target_dir, "release" if release else "debug")


# ------------------------------------------------------------------------------------------
# Known findings
# ------------------------------------------------------------------------------------------
def known_findings():
    p = os.path.join(VERIF, "known_findings.json")
    try:
        return json.load(open(p))
    except Exception:
        return {"findings": [], "fixed": []}


# ------------------------------------------------------------------------------------------
# Evidence + failure protocol
# ------------------------------------------------------------------------------------------
class Check:
    """Collects what one run of one property's check did and applies the failure protocol.

    obligation():     a proof obligation (theorem compiled + audited) or generated-table theorem
    correspondence(): a model-vs-implementation agreement item (lock-step traces, translator twins)
    violation():      a concrete failing input/history on the implementation (or the model + impl)
    """

    def __init__(self, pid, tier="quick", seed=0):
        self.pid, self.tier, self.seed = pid, tier, int(seed)
        self.t0 = time.time()
        self.obligs = []        # (name, ok, detail)
        self.corrs = []         # (name, ok, detail)
        self.viols = []         # dict(desc, replay, key, found_input)
        self.cov = {}           # extra coverage keys
        self.samples = []
        self.assumptions = []
        self.trusted = []
        self.checker_cmd = ""
        self.evaluations = 0
        self.distinct = 0
        self.rule = ""
        self.notes = []

    def obligation(self, name, ok, detail=""):
        self.obligs.append((name, bool(ok), detail))
        if not ok:
            log("[%s] OBLIGATION BROKEN: %s %s" % (self.pid, name, detail[:2000]))

    def correspondence(self, name, ok, detail=""):
        self.corrs.append((name, bool(ok), detail))
        if not ok:
            log("[%s] CORRESPONDENCE BROKEN: %s %s" % (self.pid, name, detail[:2000]))

    def violation(self, desc, replay_text, key=None, found_input=True):
        self.viols.append({"desc": desc, "replay": replay_text, "key": key, "found_input": found_input})

    def sample(self, s):
        if len(self.samples) < 12:
            self.samples.append(s)

    def _write_replay(self, text, suffix):
        os.makedirs(REPLAYS, exist_ok=True)
        hh = hashlib.sha256(text.encode()).hexdigest()[:12]
        p = os.path.join(REPLAYS, "%s-%s.%s" % (self.pid, hh, suffix))
        with open(p, "w") as f:
            f.write(text)
        return p

    def finish(self):
        kf = known_findings()
        lines, nviol, nknown = [], 0, 0
        for v in self.viols:
            matched = None
            for f in kf.get("findings", []):
                if f.get("property") == self.pid and f.get("status") == "known" and v.get("key") and f.get("key") == v["key"]:
                    matched = f
            if matched:
                nknown += 1
                lines.append("KNOWN-FINDING: property=%s %s" % (self.pid, matched.get("what", v["desc"])))
            else:
                nviol += 1
                p = self._write_replay("# %s\n%s\n" % (v["desc"], v["replay"]), "replay")
                lines.append("VIOLATION property=%s replay=%s" % (self.pid, p))
        # de-duplicate KNOWN-FINDING lines
        seen, out = set(), []
        for l in lines:
            if l not in seen:
                seen.add(l); out.append(l)
        lines = out
        broken = [(n, d) for (n, ok, d) in self.obligs if not ok] + \
                 [("correspondence:" + n, d) for (n, ok, d) in self.corrs if not ok]
        if broken and nviol == 0:
            txt = "# property %s is no longer shown to hold; no concrete failing input was found\n" % self.pid
            for n, d in broken:
                txt += "BROKEN: %s\n%s\n\n" % (n, d[:20000])
            p = self._write_replay(txt, "broken")
            lines.append("VIOLATION property=%s replay=%s no-failing-input-found" % (self.pid, p))
            nviol += 1
        n_obl = len(self.obligs)
        n_dis = sum(1 for o in self.obligs if o[1])
        cov = {
            "obligations": max(n_obl, 1) if n_obl else 0,
            "discharged": n_dis,
            "checker_cmd": self.checker_cmd or "coqc (full .vo build via coq_makefile/make) + Print Assumptions audit",
            "trusted_base": self.trusted,
            "obligation_list": [{"name": n, "ok": ok} for (n, ok, _) in self.obligs],
            "correspondence": [{"name": n, "ok": ok, "detail": d[:300]} for (n, ok, d) in self.corrs],
            "evaluations": int(self.evaluations),
            "distinct_nontrivial": int(self.distinct),
            "rule": self.rule,
            "samples": self.samples or ["<none>"],
            "traces_validated_against_impl": int(self.cov.get("traces_validated_against_impl", 0)),
            "known_findings_reported": nknown,
            "notes": self.notes,
        }
        for k, v in self.cov.items():
            cov.setdefault(k, v)
        ev = {
            "property_id": self.pid, "tier": self.tier, "seed": self.seed, "level": "proof",
            "coverage": cov, "assumptions": self.assumptions,
            "wall_s": round(time.time() - self.t0, 2), "violations": nviol,
        }
        os.makedirs(EVID, exist_ok=True)
        with open(os.path.join(EVID, "%s.json" % self.pid), "w") as f:
            json.dump(ev, f, indent=1, sort_keys=True)
        for l in lines:
            print(l, flush=True)
        if nviol == 0:
            print("OK property=%s tier=%s obligations=%d/%d correspondence=%d/%d evaluations=%d wall=%.1fs" % (
                self.pid, self.tier, n_dis, n_obl, sum(1 for c in self.corrs if c[1]), len(self.corrs),
                self.evaluations, time.time() - self.t0), flush=True)
        return 1 if nviol else 0
