#!/usr/bin/env python3
"""Statement pinning: every property theorem's STATEMENT (the text between `Theorem name :` and `Proof.` in a
*/Props/*.v file) is recorded by hash in scripts/statements.json. A check fails an obligation when a pinned theorem of
its property has disappeared or its statement differs from the pinned one, so a theorem cannot be quietly weakened or
dropped; new theorems are reported (not an error) until they are pinned with `python3 scripts/pins.py --update`."""
import glob, hashlib, json, os, re, sys
ROOT = os.path.dirname(os.path.dirname(os.path.abspath(__file__)))
PINS = os.path.join(ROOT, "scripts", "statements.json")


def strip_comments(s):
    out, depth, i = [], 0, 0
    while i < len(s):
        if s.startswith("(*", i):
            depth += 1; i += 2
        elif s.startswith("*)", i) and depth:
            depth -= 1; i += 2
        else:
            if not depth:
                out.append(s[i])
            i += 1
    return "".join(out)


def statements():
    res = {}
    for f in sorted(glob.glob(os.path.join(ROOT, "coq*", "Props", "*.v"))):
        src = strip_comments(open(f).read())
        for m in re.finditer(r"(?s)\b(?:Theorem|Lemma|Corollary)\s+([A-Za-z0-9_']+)\s*(.*?)\bProof\b", src):
            stmt = " ".join(m.group(2).split())
            res["%s:%s" % (os.path.relpath(f, ROOT), m.group(1))] = hashlib.sha256(stmt.encode()).hexdigest()[:16]
    return res


def verify(pid):
    """-> (ok, detail) for the theorems pinned under files named <pid>*.v"""
    if not os.path.exists(PINS):
        return False, "scripts/statements.json is missing"
    pinned = json.load(open(PINS))
    cur = statements()
    mine = lambda k: os.path.basename(k.split(":")[0]).upper().startswith(pid.upper())
    gone = [k for k in pinned if mine(k) and k not in cur]
    changed = [k for k in pinned if mine(k) and k in cur and cur[k] != pinned[k]]
    new = [k for k in cur if mine(k) and k not in pinned]
    n = sum(1 for k in pinned if mine(k))
    detail = "%d pinned statements" % n + ("; not yet pinned: %s" % ", ".join(new) if new else "")
    if gone or changed:
        return False, "statement(s) changed since pinned: %s; removed: %s" % (changed, gone)
    return n > 0, detail


if __name__ == "__main__":
    if "--update" in sys.argv:
        json.dump(statements(), open(PINS, "w"), indent=0, sort_keys=True)
        print("pinned", len(statements()), "statements")
    else:
        bad = 0
        for i in range(1, 21):
            ok, d = verify("C%02d" % i)
            print("C%02d" % i, "ok" if ok else "FAIL", d[:200])
            bad += not ok
        sys.exit(1 if bad else 0)
