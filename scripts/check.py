#!/usr/bin/env python3
"""Entry point registered in MANIFEST.json:  python3 scripts/check.py <Cnn> [--tier quick|thorough]
                                              python3 scripts/check.py <Cnn> --replay <path>
Exit 0: property held on everything explored. Exit 1: a VIOLATION line was printed."""
import argparse, importlib, os, sys, traceback
sys.path.insert(0, os.path.dirname(os.path.abspath(__file__)))
import vlib


def main():
    ap = argparse.ArgumentParser()
    ap.add_argument("pid")
    ap.add_argument("--tier", default=os.environ.get("VERIF_TIER", "quick"), choices=["quick", "thorough"])
    ap.add_argument("--replay", default=None)
    a = ap.parse_args()
    seed = int(os.environ.get("VERIF_SEED", "1") or 1)
    pid = a.pid.upper()
    mod = importlib.import_module("props." + pid.lower())
    if a.replay:
        if hasattr(mod, "replay"):
            sys.exit(mod.replay(a.replay) or 0)
        print(open(a.replay).read())
        sys.exit(0)
    # a seeded change is being tried on /repo by scripts/seedtest.py: an ordinary check must not see that tree
    lock = os.path.join(os.path.dirname(os.path.dirname(os.path.abspath(__file__))), ".build", "REPO_PATCHED.lock")
    if not os.environ.get("VERIF_SEEDTEST") and os.environ.get("VERIF_REPO", "/repo") == "/repo":
        import time
        t0 = time.time()
        while os.path.exists(lock) and time.time() - t0 < 3600:
            try:
                os.kill(int(open(lock).read().strip() or 0), 0)
            except Exception:
                break
            time.sleep(5)
    chk = vlib.Check(pid, a.tier, seed)
    try:
        mod.run(chk, a.tier, seed)
        import pins
        okp, dp = pins.verify(pid)
        chk.obligation("the property theorems of %s state what was pinned (scripts/statements.json: statement hashes of */Props/%s*.v)" % (pid, pid), okp, dp)
    except Exception:
        chk.obligation("check machinery ran to completion", False, traceback.format_exc())
    sys.exit(chk.finish())


if __name__ == "__main__":
    main()
