"""C03: see DESIGN.md section 5. Collector-core property: theorems in coq/Props/C03.v, tie by lock-step,
plus the static call-graph theorem over the regenerated call graph (coq-api/Props/C03Static.v)."""
from props import core, static_facts, builders_oracle

SETUP_KEY = core.SETUP_KEY
setup = core.setup


def run(chk, tier, seed):
    core.run_core(chk, "C03", tier, seed)
    trusted = list(chk.trusted)
    static_facts.callgraph_obligations(chk)
    chk.trusted = trusted + [t for t in chk.trusted if t not in trusted]
    builders_oracle.run(chk, "C03", tier, seed)


def replay(path):
    return core.replay("C03", path)
