"""Shared machinery of the API-level properties (C12, C13, C19) and the two static facts used by
C03 and C20.

Public entry points for other property modules:

    callgraph_obligations(chk)   -> adds the C03 call-graph obligations to a vlib.Check
    statics_obligations(chk)     -> adds the C20 no-shared-state obligations to a vlib.Check

Both (re)run the translator on the current working tree of vlib.REPO, rebuild the dependent .vo files
of /verif/coq-api and audit the theorems of Props/C03Static.v / Props/C20Static.v.

Everything here rebuilds from vlib.REPO's *current* working tree on every call; generated files are
rewritten only when their content changes.
"""
import concurrent.futures, hashlib, json, os, re, shutil, sys, time

sys.path.insert(0, os.path.dirname(os.path.dirname(os.path.abspath(__file__))))
import vlib

VERIF = vlib.VERIF
COQ_DIR = os.path.join(VERIF, "coq-api")
COQ_LOGICAL = "GAApi"
TRANSLATOR_DIR = os.path.join(VERIF, "translator-api")
HARNESS_DIR = os.path.join(VERIF, "harness-api")
PROBES_DIR = os.path.join(VERIF, "probes")
API_BUILD = os.path.join(vlib.BUILD, "api")
PAR = 6

_memo = {}


class locked:
    """Inter-process lock around everything that touches coq-api/ (Gen files, make, coqc): several
    property checks may run at the same time. Re-entrant within a process."""
    _depth = 0
    _fh = None

    def __enter__(self):
        import fcntl
        if locked._depth == 0:
            os.makedirs(API_BUILD, exist_ok=True)
            locked._fh = open(os.path.join(API_BUILD, "coq.lock"), "w")
            fcntl.flock(locked._fh, fcntl.LOCK_EX)
        locked._depth += 1
        return self

    def __exit__(self, *a):
        import fcntl
        locked._depth -= 1
        if locked._depth == 0:
            fcntl.flock(locked._fh, fcntl.LOCK_UN)
            locked._fh.close()
            locked._fh = None
        return False


def _write_if_changed(path, text):
    try:
        if open(path).read() == text:
            return False
    except OSError:
        pass
    os.makedirs(os.path.dirname(path), exist_ok=True)
    with open(path, "w") as f:
        f.write(text)
    return True


# ------------------------------------------------------------------------------------------------
# Rust side: translator, host rlib, harness binaries
# ------------------------------------------------------------------------------------------------
def _cargo_json_build(crate_dir, target_dir, extra=(), timeout=900, env=None):
    """cargo build --message-format=json; returns (ok, text, artifacts) where artifacts maps
    target name -> list of filenames, and text is the rendered compiler output."""
    os.makedirs(target_dir, exist_ok=True)
    lock = os.path.join(crate_dir, "Cargo.lock")
    if not os.path.exists(lock) and os.path.exists(os.path.join(vlib.REPO, "Cargo.lock")):
        shutil.copy(os.path.join(vlib.REPO, "Cargo.lock"), lock)
    cmd = ["cargo", "build", "--offline", "--target-dir", target_dir, "--message-format=json"] + list(extra)
    e = {"RUSTFLAGS": ""}
    if env:
        e.update(env)
    rc, out = vlib.run(cmd, cwd=crate_dir, timeout=timeout, env=e)
    arts, rendered = {}, []
    for line in out.splitlines():
        if not line.startswith("{"):
            rendered.append(line)
            continue
        try:
            d = json.loads(line)
        except ValueError:
            rendered.append(line)
            continue
        if d.get("reason") == "compiler-artifact":
            name = d["target"]["name"]
            arts.setdefault(name, [])
            arts[name] += d.get("filenames", [])
            if d.get("executable"):
                arts[name + "#exe"] = [d["executable"]]
        elif d.get("reason") == "compiler-message":
            r = (d.get("message") or {}).get("rendered")
            if r:
                rendered.append(r)
    return rc == 0, "\n".join(rendered), arts


def _host_dirs():
    """(manifest dir, target dir) of the harness-api build for vlib.REPO.  For the default /repo the manifest is
    /verif/harness-api/Cargo.toml (generated from the template).  For a scratch copy (VERIF_REPO) the manifest is
    generated into its own directory under .build, with its own target dir: several checks running at the same
    time against DIFFERENT trees would otherwise rewrite one shared Cargo.toml under each other (and one of them
    would be judged against the other's rlib)."""
    repo = os.path.abspath(vlib.REPO)
    tmpl = open(os.path.join(HARNESS_DIR, "Cargo.toml.tmpl")).read().replace("@REPO@", repo)
    if repo == "/repo":
        _write_if_changed(os.path.join(HARNESS_DIR, "Cargo.toml"), tmpl)
        return HARNESS_DIR, os.path.join(API_BUILD, "host")
    key = hashlib.sha256(repo.encode()).hexdigest()[:12]
    mdir = os.path.join(API_BUILD, "host-" + key)
    src = os.path.join(HARNESS_DIR, "src")
    bins = sorted(f[:-3] for f in os.listdir(os.path.join(src, "bin")) if f.endswith(".rs"))
    extra = '\n[lib]\nname = "harness_api"\npath = "%s"\n' % os.path.join(src, "lib.rs")
    for b in bins:
        extra += '\n[[bin]]\nname = "%s"\npath = "%s"\n' % (b, os.path.join(src, "bin", b + ".rs"))
    _write_if_changed(os.path.join(mdir, "Cargo.toml"), tmpl.replace("[workspace]", "autobins = false\n\n[workspace]", 1) + extra)
    return mdir, os.path.join(mdir, "target")


def host_build():
    """Build /verif/harness-api (lib + bins) against vlib.REPO. Returns (ok, detail, info) with
    info = {rlib, deps, bins{name: path}}. Memoised per repo content hash within one process."""
    key = ("host", vlib.repo_hash())
    if key in _memo:
        return _memo[key]
    mdir, tdir = _host_dirs()
    ok, text, arts = _cargo_json_build(mdir, tdir, extra=["--lib"])
    info = {}
    if ok:
        rl = [f for f in arts.get("gc_arena", []) if f.endswith(".rlib")]
        hl = [f for f in arts.get("harness_api", []) if f.endswith(".rlib")]
        if not rl:
            ok, text = False, text + "\n[no gc_arena rlib among the artifacts]"
        else:
            info = {"rlib": rl[-1], "deps": os.path.dirname(rl[-1]),
                    "harness_rlib": hl[-1] if hl else None}
    res = (ok, text[-6000:], info)
    _memo[key] = res
    return res


def harness_bin(name, release=False):
    """Build one binary of /verif/harness-api against vlib.REPO. Returns (ok, detail, exe)."""
    key = ("bin", name, release, vlib.repo_hash())
    if key in _memo:
        return _memo[key]
    ok, text, _ = host_build()
    if not ok:
        return False, text, None
    mdir, tdir = _host_dirs()
    ok, text, arts = _cargo_json_build(mdir, tdir, extra=["--bin", name] + (["--release"] if release else []))
    exe = (arts.get(name + "#exe") or [None])[0]
    res = (ok and exe is not None, text[-6000:], exe)
    _memo[key] = res
    return res


def translator_build():
    key = ("translator", vlib.tree_hash([os.path.join(TRANSLATOR_DIR, "src"), os.path.join(TRANSLATOR_DIR, "Cargo.toml")]))
    if key in _memo:
        return _memo[key]
    tdir = os.path.join(API_BUILD, "translator")
    ok, text, arts = _cargo_json_build(TRANSLATOR_DIR, tdir, extra=["--release"])
    exe = (arts.get("translator-api#exe") or [None])[0]
    res = (ok and exe is not None, text[-6000:], exe)
    _memo[key] = res
    return res


def translate():
    """Run the translator on vlib.REPO -> coq-api/Gen/*.v. Returns (ok, detail, summary_dict)."""
    key = ("translate", vlib.repo_hash())
    if key in _memo:
        return _memo[key]
    ok, text, exe = translator_build()
    if not ok:
        res = (False, "translator does not build:\n" + text, {})
        _memo[key] = res
        return res
    gen = os.path.join(COQ_DIR, "Gen")
    os.makedirs(gen, exist_ok=True)
    rc, out = vlib.run([exe, os.path.abspath(vlib.REPO), gen], timeout=120)
    summ = {}
    for line in out.splitlines():
        if line.startswith("SUMMARY "):
            try:
                summ = json.loads(line[len("SUMMARY "):])
            except ValueError:
                pass
    res = (rc == 0, out[-6000:], summ)
    _memo[key] = res
    return res


# ------------------------------------------------------------------------------------------------
# Coq side
# ------------------------------------------------------------------------------------------------
def coq_build(targets, timeout=900):
    """make the given .vo targets (relative to coq-api). Returns (ok, output)."""
    cp = os.path.join(COQ_DIR, "_CoqProject")
    files = []
    for dp, dn, fn in os.walk(COQ_DIR):
        dn.sort()
        for f in sorted(fn):
            if f.endswith(".v"):
                files.append(os.path.relpath(os.path.join(dp, f), COQ_DIR))
    _write_if_changed(cp, "-Q . %s\n" % COQ_LOGICAL + "\n".join(sorted(files)) + "\n")
    return vlib.coq_make(COQ_DIR, targets=targets, timeout=timeout, jobs=8)


def coq_eval(name, body, timeout=300):
    """Compile a scratch .v file (under .build, never in the project) importing the project and
    return (ok, stdout). Used to evaluate checker functions per item when a theorem breaks and to
    print the model's verdict tables for the model<->rustc cross-check."""
    d = os.path.join(API_BUILD, "coq-eval")
    os.makedirs(d, exist_ok=True)
    p = os.path.join(d, name + ".v")
    with open(p, "w") as f:
        f.write(body)
    rc, out = vlib.run(["coqc", "-q", "-Q", COQ_DIR, COQ_LOGICAL, "-Q", d, "GAApiEval", p], cwd=d, timeout=timeout)
    return rc == 0, out


def audit_props(chk, props_file, theorems, broken_hint=None):
    """Compile Props/<file> (dependencies already built), record one obligation per listed theorem:
    compiled + `Print Assumptions` closed (or only allow-listed axioms). Returns {thm: ok}."""
    res = {}
    ok, ax, raw = vlib.coq_print_assumptions(COQ_DIR, COQ_LOGICAL, props_file, timeout=600)
    for t in theorems:
        if not ok:
            det = "%s does not compile:\n%s" % (props_file, raw[-3000:])
            chk.obligation("%s: %s" % (props_file, t), False, det)
            res[t] = False
            continue
        a = ax.get(t)
        if a is None:
            chk.obligation("%s: %s" % (props_file, t), False, "no `Print Assumptions %s.` in %s" % (t, props_file))
            res[t] = False
            continue
        bad = [x for x in a if x not in vlib.ALLOWED_AXIOMS]
        if a:
            chk.assumptions.append("%s depends on %s" % (t, ", ".join(a)))
        chk.obligation("%s: %s" % (props_file, t), not bad,
                       "closed under the global context" if not a else "axioms: " + ", ".join(a))
        res[t] = not bad
    return res


def thorough_coqchk(chk, modules):
    """Thorough tier: re-check the compiled development with coqchk."""
    with locked():
        ok, out = vlib.coqchk(COQ_DIR, COQ_LOGICAL, modules, timeout=1500)
    good = ok and "Axioms: <none>" in out.replace("\n  ", " ").replace("* Axioms:\n", "* Axioms: ") or (ok and re.search(r"\* Axioms:\s*<none>", out) is not None)
    chk.obligation("coqchk -o -silent %s" % " ".join(modules), good, out[-1500:])
    return good


def forbidden_scan(chk):
    hits = vlib.coq_forbidden_scan(COQ_DIR)
    chk.obligation("coq-api: no Admitted/Axiom/Parameter/disabled checks", not hits, "\n".join(hits[:20]))
    return not hits


# ------------------------------------------------------------------------------------------------
# Compile probes
# ------------------------------------------------------------------------------------------------
def parse_probe(path):
    meta = {"path": path, "id": os.path.splitext(os.path.basename(path))[0], "expect": None, "codes": [],
            "twin": None, "run": None, "item": None, "rule": None, "known": None, "note": ""}
    src = open(path).read()
    for m in re.finditer(r"(?m)^//@[ \t]*([a-z_]+)[ \t]*:[ \t]*(.*?)[ \t]*$", src):
        k, v = m.group(1), m.group(2)
        if k == "codes":
            meta["codes"] = [c.strip() for c in v.split(",") if c.strip() and c.strip().lower() != "none"]
        else:
            meta[k] = v
    meta["src"] = src
    return meta


def list_probes(sub):
    d = os.path.join(PROBES_DIR, sub)
    out = []
    for f in sorted(os.listdir(d)):
        if f.endswith(".rs"):
            out.append(parse_probe(os.path.join(d, f)))
    return out


def compile_probe(path, host, outdir, src_text=None, opt=False):
    """Compile one single-file probe against the host rlib. Returns dict(accepted, codes, errors, exe)."""
    os.makedirs(outdir, exist_ok=True)
    name = os.path.splitext(os.path.basename(path))[0]
    exe = os.path.join(outdir, name)
    if src_text is not None:
        path = os.path.join(outdir, name + ".rs")
        with open(path, "w") as f:
            f.write(src_text)
    cmd = ["rustc", "--edition", "2024", "--crate-type", "bin", "--crate-name", re.sub(r"[^A-Za-z0-9_]", "_", name),
           "-C", "debuginfo=0", "-C", "debug-assertions=on", "-C", "opt-level=%d" % (2 if opt else 0),
           "-A", "warnings", "--error-format=json",
           "--extern", "gc_arena=" + host["rlib"], "-L", "dependency=" + host["deps"], path, "-o", exe]
    rc, out = vlib.run(cmd, timeout=180)
    codes, errors = [], []
    for line in out.splitlines():
        if not line.startswith("{"):
            continue
        try:
            d = json.loads(line)
        except ValueError:
            continue
        if d.get("level") == "error":
            c = (d.get("code") or {}).get("code")
            if c:
                codes.append(c)
            msg = d.get("message", "")
            if not msg.startswith("aborting due to"):
                errors.append(("%s: " % c if c else "") + msg)
    return {"accepted": rc == 0, "rc": rc, "codes": sorted(set(codes)), "errors": errors[:6],
            "exe": exe if rc == 0 else None, "raw": out[-1500:] if rc not in (0, 1) else ""}


def run_exe(exe, timeout=60, args=()):
    rc, out = vlib.run([exe] + list(args), timeout=timeout)
    return rc, out


def run_probes(sub, host, only=None, opt=False):
    """Compile (and, where `run:` is set and the probe is accepted, execute) all probes of a
    sub-directory in parallel. Returns {id: result} with result = meta + verdict fields."""
    probes = [p for p in list_probes(sub) if (only is None or p["id"] in only)]
    outdir = os.path.join(API_BUILD, "probes", "%s-%d" % (sub, os.getpid()))

    def one(p):
        r = compile_probe(p["path"], host, outdir, opt=opt)
        r.update({k: p[k] for k in ("id", "expect", "twin", "run", "item", "rule", "known", "path")})
        r["expected_codes"] = p["codes"]
        if r["accepted"] and p.get("run"):
            rc, out = run_exe(r["exe"])
            r["run_rc"], r["run_out"] = rc, out[-1500:]
        return p["id"], r

    try:
        with concurrent.futures.ThreadPoolExecutor(max_workers=PAR) as ex:
            return dict(ex.map(one, probes))
    finally:
        shutil.rmtree(outdir, ignore_errors=True)


def judge_probe(r):
    """(ok, why). A probe is judged on accept/reject; error codes are checked loosely (a reject with
    none of the expected codes is still a reject and only noted)."""
    exp = r["expect"]
    if exp == "accept":
        if not r["accepted"]:
            return False, "expected to compile, rejected: " + "; ".join(r["errors"][:3])
        if r.get("run") and r.get("run_rc") != 0:
            return False, "accepted but its run failed rc=%s: %s" % (r.get("run_rc"), (r.get("run_out") or "")[-400:])
        return True, "accepted" + (" + ran ok" if r.get("run") else "")
    if exp == "reject":
        if r["accepted"]:
            return False, "expected to be rejected by rustc, but it compiles"
        if r["rc"] not in (1,):
            return False, "rustc did not terminate normally (rc=%s): %s" % (r["rc"], r.get("raw", ""))
        return True, "rejected " + ",".join(r["codes"])
    return False, "probe has no `//@ expect:` line"


def code_note(r):
    if r["expect"] == "reject" and not r["accepted"] and r["expected_codes"]:
        if not (set(r["expected_codes"]) & set(r["codes"])):
            return "%s: rejected with %s, recorded expectation was %s" % (r["id"], r["codes"], r["expected_codes"])
    return None


# ------------------------------------------------------------------------------------------------
# CLI helper for developing probes:  python3 static_facts.py probes c13 [id ...]
# ------------------------------------------------------------------------------------------------
def _cli():
    if len(sys.argv) >= 3 and sys.argv[1] == "probes":
        ok, text, host = host_build()
        if not ok:
            print("host build failed:\n" + text)
            sys.exit(2)
        only = set(sys.argv[3:]) or None
        t0 = time.time()
        res = run_probes(sys.argv[2], host, only)
        bad = 0
        for pid in sorted(res):
            r = res[pid]
            good, why = judge_probe(r)
            bad += 0 if good else 1
            print("%-4s %-34s expect=%-6s %s %s" % ("ok" if good else "BAD", pid, r["expect"], why[:150],
                                                    ("[note: %s]" % code_note(r)) if code_note(r) else ""))
        print("%d probes, %d bad, %.1fs" % (len(res), bad, time.time() - t0))
        sys.exit(1 if bad else 0)
    print(__doc__)


if __name__ == "__main__":
    _cli()


# ------------------------------------------------------------------------------------------------
# Model reports: evaluate the checker functions per item (used for the model<->rustc cross-check and,
# when a generated-table theorem breaks, to find the offending item).
# ------------------------------------------------------------------------------------------------
_REPORT_PRELUDE = """Require Import Coq.Strings.String Coq.Lists.List Coq.Bool.Bool Coq.NArith.NArith.
Require Import GAApi.Syntax GAApi.ModelTypes GAApi.ModelWrite GAApi.ModelSigs GAApi.ModelStatic.
Require Import GAApi.Gen.GenTypes GAApi.Gen.GenWrite GAApi.Gen.GenSigs GAApi.Gen.GenCallGraph.
Import ListNotations. Open Scope string_scope.
Set Printing Width 10000000. Set Printing Depth 10000000.
Definition sb (b : bool) : string := if b then "true" else "false".
Definition sv (v : variance) : string := match v with Bi => "Bi" | Co => "Co" | Contra => "Contra" | Inv => "Inv" end.
Definition sov (o : option variance) : string := match o with Some v => sv v | None => "none" end.
Definition so (o : origin) : string := match o with OBarriered => "Barriered" | OStatic => "Static" | OExclusive => "Exclusive" | OForged => "Forged" end.
Definition sk (k : proj_kind) : string := match k with PDeref => "Deref" | PIndex => "Index" | PPayload => "Payload" | PUnknown => "Unknown" end.
Definition sc (c : oclass) : string := match c with Unique => "Unique" | Shared => "Shared" end.
Definition ctor_name (t : ty) : string :=
  match t with TPath n _ _ => n | TRef _ _ _ => "Ref" | TPtr _ _ => "Ptr" | TSlice _ => "Slice" | TArray _ => "Array"
             | TTuple _ => "Tuple" | TParam x => x | _ => "?" end.
Definition nat_s (n : nat) : string := match n with 0 => "0" | 1 => "1" | 2 => "2" | 3 => "3" | _ => "n" end.
Definition fq (f : fnsig) : string := fs_owner f ++ "::" ++ fs_name f.
"""


def parse_report(out):
    """Parse blocks `= ("section", [("k", "v"); ...])` printed by Eval vm_compute."""
    res = {}
    for m in re.finditer(r'=\s*\("((?:[^"]|"")*)",\s*(\[.*?\])\)\s*:\s*string \* list', out, re.S):
        sec, body = m.group(1), m.group(2)
        pairs = re.findall(r'\("((?:[^"]|"")*)",\s*"((?:[^"]|"")*)"\)', body)
        res[sec] = [(k.replace('""', '"'), v.replace('""', '"')) for k, v in pairs]
    return res


def model_report(name, evals):
    """evals: list of (section, coq_term_of_type list (string*string)). Returns (ok, {section: [(k, v)]}, raw)."""
    body = _REPORT_PRELUDE + "\n".join('Eval vm_compute in ("%s", %s).' % (s, t) for s, t in evals) + "\n"
    ok, out = coq_eval(name, body)
    return ok, (parse_report(out) if ok else {}), out


BASE_VO = ["Syntax.vo", "ModelTypes.vo", "ModelWrite.vo", "ModelSigs.vo", "ModelStatic.vo",
           "Gen/GenTypes.vo", "Gen/GenWrite.vo", "Gen/GenSigs.vo", "Gen/GenCallGraph.vo"]


def prepare(chk, label):
    """Regenerate the tables and build the definitions-only part of the Coq project (the model must
    still run when a proof breaks). Returns (ok, summary)."""
    ok, detail, summ = translate()
    chk.correspondence("%s: translator ran on the current tree" % label, ok, detail[-1500:] if not ok else
                       "files=%s fns=%s impls=%s unknown=%s" % (summ.get("files"), summ.get("fns"), summ.get("impls"), summ.get("unknown")))
    if not ok:
        return False, summ
    if summ.get("unknown"):
        unk = [l for l in detail.splitlines() if l.startswith("UNKNOWN ")]
        chk.correspondence("%s: translator classified every item (fails closed otherwise)" % label, False, "\n".join(unk[:20]))
    ok2, out = coq_build(BASE_VO)
    chk.obligation("%s: model + regenerated tables compile (definitions only)" % label, ok2, out[-2500:] if not ok2 else "")
    return ok2, summ


def build_and_audit(chk, props_file, theorems):
    """make Props/<file>.vo (full .vo build), then audit each theorem. Returns {thm: ok}."""
    vo = props_file[:-2] + ".vo"
    ok, out = coq_build([vo])
    if not ok:
        tail = out[-3000:]
        for t in theorems:
            chk.obligation("%s: %s" % (props_file, t), False, "make %s failed:\n%s" % (vo, tail))
        return {t: False for t in theorems}
    return audit_props(chk, props_file, theorems)


def setup():
    """Warm-up: build the translator, the host rlib, the twin binary and the whole Coq project."""
    with locked():
        _setup()


def _setup():
    t0 = time.time()
    ok, text, _ = translator_build()
    vlib.log("[api setup] translator: %s" % ("ok" if ok else "FAILED\n" + text[-800:]))
    ok, text, summ = translate()
    vlib.log("[api setup] translate: %s %s" % ("ok" if ok else "FAILED", {k: summ.get(k) for k in ("fns", "impls", "unknown")}))
    ok, out = coq_build(None, timeout=1500)
    vlib.log("[api setup] coq build: %s" % ("ok" if ok else "FAILED\n" + out[-1500:]))
    ok, text, _ = host_build()
    vlib.log("[api setup] host rlib: %s" % ("ok" if ok else "FAILED\n" + text[-800:]))
    ok, text, _ = harness_bin("c19_twin")
    vlib.log("[api setup] c19_twin: %s" % ("ok" if ok else "FAILED\n" + text[-800:]))
    vlib.log("[api setup] done in %.0fs" % (time.time() - t0))


# ------------------------------------------------------------------------------------------------
# Static facts for C03 / C20
# ------------------------------------------------------------------------------------------------
_PATH_SEARCH = """
Fixpoint bfs_path (fuel : nat) (g : list cg_fn) (work : list (N * list N)) (seen : list N) (bad : list N) : option (list N) :=
  match fuel with O => None | S f =>
    match work with
    | [] => None
    | (x, p) :: w => if memN x bad then Some (rev (x :: p))
                     else if memN x seen then bfs_path f g w seen bad
                     else bfs_path f g (w ++ map (fun y => (y, x :: p)) (succs g x))%list (x :: seen) bad
    end end.
Definition show_node (i : N) : string := match node fns i with Some f => cg_owner f ++ "::" ++ cg_name f | None => "?" end.
Definition show_path (o : option (list N)) : list (string * string) :=
  match o with Some p => map (fun i => (show_node i, "")) p | None => [] end.
"""


def callgraph_obligations(chk):
    """C03 (b): the call-graph theorem over the regenerated graph. Adds obligations to chk and, when the
    theorem breaks, the offending path / method as the obligation's detail. Returns True iff it holds."""
    with locked():
        return _callgraph_obligations(chk)


def _callgraph_obligations(chk):
    ok, _ = prepare(chk, "C03 call graph")
    if not ok:
        return False
    res = build_and_audit(chk, "Props/C03Static.v", ["C03_callgraph"])
    good = all(res.values())
    chk.trusted.append("translator-api: name-based over-approximate call graph (rule re-checked in Coq by edge_rule_ok); "
                       "implicit destructor calls approximated; rustc's &mut exclusivity")
    if not good:
        evals = [
            ("entry_path", "show_path (bfs_path (graph_fuel fns) fns (map (fun e => (e, [])) (entries fns)) [] (forbidden fns))"),
            ("bad_methods", "map (fun f => (cg_owner f ++ \"::\" ++ cg_name f, \"takes neither &mut self nor self but reaches do_collection\")) "
                            "(filter (fun f => negb (arena_method_ok fns f)) fns)"),
            ("edge_rule", "map (fun f => (cg_owner f ++ \"::\" ++ cg_name f, \"edges do not cover the name-based rule\")) "
                          "(filter (fun f => negb (edge_rule_ok {| n_structs := struct_names; n_aliases := alias_names; n_traits := trait_names |} fns f)) fns)"),
            ("callbacks", "map (fun f => (fs_name f, sb (callback_borrows_arena f))) arena_fns"),
            ("unknown", "map (fun s => (s, \"\")) GenCallGraph.unknown_items"),
        ]
        body = _REPORT_PRELUDE + _PATH_SEARCH + "\n".join('Eval vm_compute in ("%s", %s).' % e for e in evals)
        okr, out = coq_eval("c03_report", body)
        rep = parse_report(out) if okr else {}
        lines = []
        if rep.get("entry_path"):
            lines.append("call path from a &Mutation/&Finalization entry point to a collector function: " +
                         " -> ".join(k for k, _ in rep["entry_path"]))
        for k, v in rep.get("bad_methods", []):
            lines.append("%s %s" % (k, v))
        for k, v in rep.get("edge_rule", [])[:5]:
            lines.append("%s: %s" % (k, v))
        for k, v in rep.get("callbacks", []):
            if v == "false":
                lines.append("callback-taking fn `%s` neither borrows an arena nor builds its own context" % k)
        for k, _ in rep.get("unknown", []):
            lines.append("unclassified syntax: " + k)
        chk.obligation("C03_callgraph: offending items in the regenerated call graph", False, "\n".join(lines) or out[-1500:])
        chk.cov["c03_callgraph_offenders"] = lines
    return good


def statics_obligations(chk):
    """C20: no statics / thread-locals, owned context fields. Returns True iff it holds."""
    with locked():
        return _statics_obligations(chk)


def _statics_obligations(chk):
    ok, _ = prepare(chk, "C20 statics")
    if not ok:
        return False
    res = build_and_audit(chk, "Props/C20Static.v", ["C20_no_shared_state"])
    good = all(res.values())
    chk.trusted.append("translator-api: list of static items / thread_local! uses / field types (fails closed on unknown item macros)")
    if not good:
        evals = [
            ("statics", "map (fun s => (fst (fst s) ++ \" in \" ++ snd s, sb (snd (fst s)))) statics"),
            ("thread_locals", "map (fun s => (s, \"\")) thread_locals"),
            ("fields", "flat_map (fun n => match find_decl decls n with Some d => map (fun t => (n, sb (owned 16 decls t))) (decl_field_tys d) | None => [(n, \"missing\")] end) state_structs"),
            ("ctors", "[(\"Context::new takes no arguments\", sb (fresh_ctor fns \"Context\")); (\"Metrics::new takes no arguments\", sb (fresh_ctor fns \"Metrics\"))]"),
            ("unknown", "map (fun s => (s, \"\")) GenCallGraph.unknown_items"),
        ]
        okr, rep, out = model_report("c20_report", evals)
        lines = []
        for k, v in rep.get("statics", []):
            lines.append("static item %s (mut=%s)" % (k, v))
        for k, _ in rep.get("thread_locals", []):
            lines.append("thread-local: " + k)
        bad_fields = [k for k, v in rep.get("fields", []) if v != "true"]
        if bad_fields:
            lines.append("non-owned field type(s) in: " + ", ".join(sorted(set(bad_fields))))
        for k, v in rep.get("ctors", []):
            if v != "true":
                lines.append("NOT: " + k)
        for k, _ in rep.get("unknown", []):
            lines.append("unclassified syntax: " + k)
        chk.obligation("C20_no_shared_state: offending items", False, "\n".join(lines) or out[-1500:])
        chk.cov["c20_static_offenders"] = lines
    return good


def brand_obligations(chk):
    """C20 (and C12): every callback-taking function of arena.rs quantifies the arena brand with `for<'gc>` on its
    closure bound (theorem C12_callbacks over the regenerated signature table): without the binder two arenas
    share a brand and pointers of one can be rooted in the other. Returns True iff it holds."""
    with locked():
        ok, _ = prepare(chk, "C20 brand")
        if not ok:
            return False
        res = build_and_audit(chk, "Props/C12.v", ["C12_callbacks", "C12_args_share_brand"])
        good = all(res.values())
        chk.trusted.append("translator-api: signatures of arena.rs (binder structure of the closure bounds); rustc's HRTB generativity")
        if not good:
            evals = [("callbacks", "map (fun f => (fs_name f, sb (callback_ok decls f))) (callback_fns arena_fns)"),
                     ("args_brand", "map (fun f => (fq f, sb (ModelSigs.args_share_brand decls (branded (mk_adts decls)) f))) GenSigs.pub_fns")]
            try:
                okr, rep, out = model_report("c20_brand_report", evals)
            except Exception as e:  # pragma: no cover
                okr, rep, out = False, {}, str(e)
            bad = [k for k, v in rep.get("callbacks", []) if v != "true"] + ["%s (arguments at different / anonymous brands)" % k for k, v in rep.get("args_brand", []) if v != "true"]
            chk.obligation("C12_callbacks: callback-taking functions whose closure bound does not bind the brand with for<'gc>", False,
                           ", ".join(bad) or out[-1200:])
            chk.cov["c20_brand_offenders"] = bad
            # search for a concrete failing input: the cross-arena programs of the C12 probe corpus (a pointer, a
            # context or a handle of one arena used in another) must all be rejected by rustc
            try:
                okh, _, host = host_build()
                if okh:
                    ids = [q["id"] for q in list_probes("c12") if "cross_arena" in (q.get("item") or "") or "unify_two" in (q.get("item") or "")]
                    res = run_probes("c12", host, only=set(ids))
                    chk.cov["c20_cross_arena_probes"] = {i: ("accepted" if r["accepted"] else "rejected") for i, r in sorted(res.items())}
                    for i, r in sorted(res.items()):
                        if r["expect"] == "reject" and r["accepted"] and not r.get("known"):
                            chk.violation("C20: rustc ACCEPTS the safe program %s (%s): values of one arena are used in another arena" % (i, r.get("rule")),
                                          "// probe %s -- compile with: rustc --edition 2024 --extern gc_arena=<rlib of /repo>\n%s" % (r["path"], open(r["path"]).read()))
            except Exception as e:  # pragma: no cover
                chk.notes.append("cross-arena probe search failed: %s" % e)
        return good
