"""Shared machinery of the API-level properties (C12, C13, C19) and the two static facts used by
C03 and C20.

Public entry points for other property modules:

    callgraph_obligations(chk)   -> adds the C03 call-graph obligations to a vlib.Check
    statics_obligations(chk)     -> adds the C20 no-shared-state obligations to a vlib.Check

Both (re)run the translator on the current working tree of vlib.REPO, rebuild the dependent .vo files
of /verif/coq-api and audit the theorems of Props/Static.v.

Everything here rebuilds from vlib.REPO's *current* working tree on every call; generated files are
rewritten only when their content changes.
"""
import concurrent.futures, hashlib, json, os, re, shutil, sys, time

sys.path.insert(0, os.path.dirname(os.path.dirname(os.path.abspath(__file__))))
import vlib

VERIF = vlib.VERIF
COQ_DIR = os.path.join(VERIF, "coq-api")
COQ_LOGICAL = "GAApi"
TRANSLATOR_DIR = os.path.join(VERIF, "translator-api")
HARNESS_DIR = os.path.join(VERIF, "harness-api")
PROBES_DIR = os.path.join(VERIF, "probes")
API_BUILD = os.path.join(vlib.BUILD, "api")
PAR = 6

_memo = {}


def _write_if_changed(path, text):
    try:
        if open(path).read() == text:
            return False
    except OSError:
        pass
    os.makedirs(os.path.dirname(path), exist_ok=True)
    with open(path, "w") as f:
        f.write(text)
    return True


# ------------------------------------------------------------------------------------------------
# Rust side: translator, host rlib, harness binaries
# ------------------------------------------------------------------------------------------------
def _cargo_json_build(crate_dir, target_dir, extra=(), timeout=900, env=None):
    """cargo build --message-format=json; returns (ok, text, artifacts) where artifacts maps
    target name -> list of filenames, and text is the rendered compiler output."""
    os.makedirs(target_dir, exist_ok=True)
    lock = os.path.join(crate_dir, "Cargo.lock")
    if not os.path.exists(lock) and os.path.exists(os.path.join(vlib.REPO, "Cargo.lock")):
        shutil.copy(os.path.join(vlib.REPO, "Cargo.lock"), lock)
    cmd = ["cargo", "build", "--offline", "--target-dir", target_dir, "--message-format=json"] + list(extra)
    e = {"RUSTFLAGS": ""}
    if env:
        e.update(env)
    rc, out = vlib.run(cmd, cwd=crate_dir, timeout=timeout, env=e)
    arts, rendered = {}, []
    for line in out.splitlines():
        if not line.startswith("{"):
            rendered.append(line)
            continue
        try:
            d = json.loads(line)
        except ValueError:
            rendered.append(line)
            continue
        if d.get("reason") == "compiler-artifact":
            name = d["target"]["name"]
            arts.setdefault(name, [])
            arts[name] += d.get("filenames", [])
            if d.get("executable"):
                arts[name + "#exe"] = [d["executable"]]
        elif d.get("reason") == "compiler-message":
            r = (d.get("message") or {}).get("rendered")
            if r:
                rendered.append(r)
    return rc == 0, "\n".join(rendered), arts


def host_build():
    """Build /verif/harness-api (lib + bins) against vlib.REPO. Returns (ok, detail, info) with
    info = {rlib, deps, bins{name: path}}. Memoised per repo content hash within one process."""
    key = ("host", vlib.repo_hash())
    if key in _memo:
        return _memo[key]
    tmpl = open(os.path.join(HARNESS_DIR, "Cargo.toml.tmpl")).read()
    _write_if_changed(os.path.join(HARNESS_DIR, "Cargo.toml"), tmpl.replace("@REPO@", os.path.abspath(vlib.REPO)))
    tdir = os.path.join(API_BUILD, "host")
    ok, text, arts = _cargo_json_build(HARNESS_DIR, tdir, extra=["--lib"])
    info = {}
    if ok:
        rl = [f for f in arts.get("gc_arena", []) if f.endswith(".rlib")]
        hl = [f for f in arts.get("harness_api", []) if f.endswith(".rlib")]
        if not rl:
            ok, text = False, text + "\n[no gc_arena rlib among the artifacts]"
        else:
            info = {"rlib": rl[-1], "deps": os.path.dirname(rl[-1]),
                    "harness_rlib": hl[-1] if hl else None}
    res = (ok, text[-6000:], info)
    _memo[key] = res
    return res


def harness_bin(name):
    """Build one binary of /verif/harness-api against vlib.REPO. Returns (ok, detail, exe)."""
    key = ("bin", name, vlib.repo_hash())
    if key in _memo:
        return _memo[key]
    ok, text, _ = host_build()
    if not ok:
        return False, text, None
    ok, text, arts = _cargo_json_build(HARNESS_DIR, os.path.join(API_BUILD, "host"), extra=["--bin", name])
    exe = (arts.get(name + "#exe") or [None])[0]
    res = (ok and exe is not None, text[-6000:], exe)
    _memo[key] = res
    return res


def translator_build():
    key = ("translator", vlib.tree_hash([os.path.join(TRANSLATOR_DIR, "src"), os.path.join(TRANSLATOR_DIR, "Cargo.toml")]))
    if key in _memo:
        return _memo[key]
    tdir = os.path.join(API_BUILD, "translator")
    ok, text, arts = _cargo_json_build(TRANSLATOR_DIR, tdir, extra=["--release"])
    exe = (arts.get("translator-api#exe") or [None])[0]
    res = (ok and exe is not None, text[-6000:], exe)
    _memo[key] = res
    return res


def translate():
    """Run the translator on vlib.REPO -> coq-api/Gen/*.v. Returns (ok, detail, summary_dict)."""
    key = ("translate", vlib.repo_hash())
    if key in _memo:
        return _memo[key]
    ok, text, exe = translator_build()
    if not ok:
        res = (False, "translator does not build:\n" + text, {})
        _memo[key] = res
        return res
    gen = os.path.join(COQ_DIR, "Gen")
    os.makedirs(gen, exist_ok=True)
    rc, out = vlib.run([exe, os.path.abspath(vlib.REPO), gen], timeout=120)
    summ = {}
    for line in out.splitlines():
        if line.startswith("SUMMARY "):
            try:
                summ = json.loads(line[len("SUMMARY "):])
            except ValueError:
                pass
    res = (rc == 0, out[-6000:], summ)
    _memo[key] = res
    return res


# ------------------------------------------------------------------------------------------------
# Coq side
# ------------------------------------------------------------------------------------------------
def coq_build(targets, timeout=900):
    """make the given .vo targets (relative to coq-api). Returns (ok, output)."""
    cp = os.path.join(COQ_DIR, "_CoqProject")
    files = []
    for dp, dn, fn in os.walk(COQ_DIR):
        dn.sort()
        for f in sorted(fn):
            if f.endswith(".v"):
                files.append(os.path.relpath(os.path.join(dp, f), COQ_DIR))
    _write_if_changed(cp, "-Q . %s\n" % COQ_LOGICAL + "\n".join(sorted(files)) + "\n")
    return vlib.coq_make(COQ_DIR, targets=targets, timeout=timeout, jobs=8)


def coq_eval(name, body, timeout=300):
    """Compile a scratch .v file (under .build, never in the project) importing the project and
    return (ok, stdout). Used to evaluate checker functions per item when a theorem breaks and to
    print the model's verdict tables for the model<->rustc cross-check."""
    d = os.path.join(API_BUILD, "coq-eval")
    os.makedirs(d, exist_ok=True)
    p = os.path.join(d, name + ".v")
    with open(p, "w") as f:
        f.write(body)
    rc, out = vlib.run(["coqc", "-q", "-Q", COQ_DIR, COQ_LOGICAL, "-Q", d, "GAApiEval", p], cwd=d, timeout=timeout)
    return rc == 0, out


def audit_props(chk, props_file, theorems, broken_hint=None):
    """Compile Props/<file> (dependencies already built), record one obligation per listed theorem:
    compiled + `Print Assumptions` closed (or only allow-listed axioms). Returns {thm: ok}."""
    res = {}
    ok, ax, raw = vlib.coq_print_assumptions(COQ_DIR, COQ_LOGICAL, props_file, timeout=600)
    for t in theorems:
        if not ok:
            det = "%s does not compile:\n%s" % (props_file, raw[-3000:])
            chk.obligation("%s: %s" % (props_file, t), False, det)
            res[t] = False
            continue
        a = ax.get(t)
        if a is None:
            chk.obligation("%s: %s" % (props_file, t), False, "no `Print Assumptions %s.` in %s" % (t, props_file))
            res[t] = False
            continue
        bad = [x for x in a if x not in vlib.ALLOWED_AXIOMS]
        if a:
            chk.assumptions.append("%s depends on %s" % (t, ", ".join(a)))
        chk.obligation("%s: %s" % (props_file, t), not bad,
                       "closed under the global context" if not a else "axioms: " + ", ".join(a))
        res[t] = not bad
    return res


def forbidden_scan(chk):
    hits = vlib.coq_forbidden_scan(COQ_DIR)
    chk.obligation("coq-api: no Admitted/Axiom/Parameter/disabled checks", not hits, "\n".join(hits[:20]))
    return not hits


# ------------------------------------------------------------------------------------------------
# Compile probes
# ------------------------------------------------------------------------------------------------
def parse_probe(path):
    meta = {"path": path, "id": os.path.splitext(os.path.basename(path))[0], "expect": None, "codes": [],
            "twin": None, "run": None, "item": None, "rule": None, "known": None, "note": ""}
    src = open(path).read()
    for m in re.finditer(r"(?m)^//@[ \t]*([a-z_]+)[ \t]*:[ \t]*(.*?)[ \t]*$", src):
        k, v = m.group(1), m.group(2)
        if k == "codes":
            meta["codes"] = [c.strip() for c in v.split(",") if c.strip() and c.strip().lower() != "none"]
        else:
            meta[k] = v
    meta["src"] = src
    return meta


def list_probes(sub):
    d = os.path.join(PROBES_DIR, sub)
    out = []
    for f in sorted(os.listdir(d)):
        if f.endswith(".rs"):
            out.append(parse_probe(os.path.join(d, f)))
    return out


def compile_probe(path, host, outdir, src_text=None):
    """Compile one single-file probe against the host rlib. Returns dict(accepted, codes, errors, exe)."""
    os.makedirs(outdir, exist_ok=True)
    name = os.path.splitext(os.path.basename(path))[0]
    exe = os.path.join(outdir, name)
    if src_text is not None:
        path = os.path.join(outdir, name + ".rs")
        with open(path, "w") as f:
            f.write(src_text)
    cmd = ["rustc", "--edition", "2024", "--crate-type", "bin", "--crate-name", re.sub(r"[^A-Za-z0-9_]", "_", name),
           "-C", "debuginfo=0", "-C", "debug-assertions=on", "-A", "warnings", "--error-format=json",
           "--extern", "gc_arena=" + host["rlib"], "-L", "dependency=" + host["deps"], path, "-o", exe]
    rc, out = vlib.run(cmd, timeout=180)
    codes, errors = [], []
    for line in out.splitlines():
        if not line.startswith("{"):
            continue
        try:
            d = json.loads(line)
        except ValueError:
            continue
        if d.get("level") == "error":
            c = (d.get("code") or {}).get("code")
            if c:
                codes.append(c)
            msg = d.get("message", "")
            if not msg.startswith("aborting due to"):
                errors.append(("%s: " % c if c else "") + msg)
    return {"accepted": rc == 0, "rc": rc, "codes": sorted(set(codes)), "errors": errors[:6],
            "exe": exe if rc == 0 else None, "raw": out[-1500:] if rc not in (0, 1) else ""}


def run_exe(exe, timeout=60, args=()):
    rc, out = vlib.run([exe] + list(args), timeout=timeout)
    return rc, out


def run_probes(sub, host, only=None):
    """Compile (and, where `run:` is set and the probe is accepted, execute) all probes of a
    sub-directory in parallel. Returns {id: result} with result = meta + verdict fields."""
    probes = [p for p in list_probes(sub) if (only is None or p["id"] in only)]
    outdir = os.path.join(API_BUILD, "probes", sub)

    def one(p):
        r = compile_probe(p["path"], host, outdir)
        r.update({k: p[k] for k in ("id", "expect", "twin", "run", "item", "rule", "known", "path")})
        r["expected_codes"] = p["codes"]
        if r["accepted"] and p.get("run"):
            rc, out = run_exe(r["exe"])
            r["run_rc"], r["run_out"] = rc, out[-1500:]
        return p["id"], r

    with concurrent.futures.ThreadPoolExecutor(max_workers=PAR) as ex:
        return dict(ex.map(one, probes))


def judge_probe(r):
    """(ok, why). A probe is judged on accept/reject; error codes are checked loosely (a reject with
    none of the expected codes is still a reject and only noted)."""
    exp = r["expect"]
    if exp == "accept":
        if not r["accepted"]:
            return False, "expected to compile, rejected: " + "; ".join(r["errors"][:3])
        if r.get("run") and r.get("run_rc") != 0:
            return False, "accepted but its run failed rc=%s: %s" % (r.get("run_rc"), (r.get("run_out") or "")[-400:])
        return True, "accepted" + (" + ran ok" if r.get("run") else "")
    if exp == "reject":
        if r["accepted"]:
            return False, "expected to be rejected by rustc, but it compiles"
        if r["rc"] not in (1,):
            return False, "rustc did not terminate normally (rc=%s): %s" % (r["rc"], r.get("raw", ""))
        return True, "rejected " + ",".join(r["codes"])
    return False, "probe has no `//@ expect:` line"


def code_note(r):
    if r["expect"] == "reject" and not r["accepted"] and r["expected_codes"]:
        if not (set(r["expected_codes"]) & set(r["codes"])):
            return "%s: rejected with %s, recorded expectation was %s" % (r["id"], r["codes"], r["expected_codes"])
    return None


# ------------------------------------------------------------------------------------------------
# CLI helper for developing probes:  python3 static_facts.py probes c13 [id ...]
# ------------------------------------------------------------------------------------------------
def _cli():
    if len(sys.argv) >= 3 and sys.argv[1] == "probes":
        ok, text, host = host_build()
        if not ok:
            print("host build failed:\n" + text)
            sys.exit(2)
        only = set(sys.argv[3:]) or None
        t0 = time.time()
        res = run_probes(sys.argv[2], host, only)
        bad = 0
        for pid in sorted(res):
            r = res[pid]
            good, why = judge_probe(r)
            bad += 0 if good else 1
            print("%-4s %-34s expect=%-6s %s %s" % ("ok" if good else "BAD", pid, r["expect"], why[:150],
                                                    ("[note: %s]" % code_note(r)) if code_note(r) else ""))
        print("%d probes, %d bad, %.1fs" % (len(res), bad, time.time() - t0))
        sys.exit(1 if bad else 0)
    print(__doc__)


if __name__ == "__main__":
    _cli()
