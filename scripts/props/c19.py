"""C19 -- pointer conversions preserve identity; the safe API never conjures values (PARTIAL).

Proof part (Coq, /verif/coq-api/Props/C19.v): the signature criterion `sig_ok` over every public safe
function of the crate that returns a Gc/GcWeak (regenerated on every run), and the model of the
`ZstCache::alloc_zst` guard read from the source.  The parametricity argument behind the criterion is
TRUSTED, not proved.
Test part: conjuring probes (/verif/probes/c19) and the run-time twin
/verif/harness-api/src/bin/c19_twin.rs (ptr_eq / address identity, survival when only the converted
pointer is kept, single destruction as the original type, deref; ZstCache hit iff size == 0 && align <=
MAX over a (size, align) grid).
"""
import os, re, sys

sys.path.insert(0, os.path.dirname(os.path.dirname(os.path.abspath(__file__))))
import vlib
from props import static_facts as sf

SETUP_KEY = "api"
PID = "C19"
THEOREMS = ["C19_sigs_ok", "C19_zst_shape", "C19_zst_cond", "C19_zst_cond_complete", "C19_macros_no_caller_code_in_unsafe", "C19_unsize_coerces_raw_pointers"]


def setup():
    sf.setup()


def _report():
    evals = [
        ("sigs", "map (fun f => (fq f, sb (sig_ok decls f))) (filter (relevant decls) pub_fns)"),
        ("zst", "[(\"alloc_zst found\", sb zst_found); "
                "(\"the body (decision tree over its conditions) returns Some(..) exactly when size_of == 0 && align_of <= MAX_ALIGN\", sb (zbody_canonical zst_body)); "
                "(\"anchor types are repr(align(N)) for Alignment<N>\", sb (aligned_types_ok aligned_types))]"),
        ("unsafe_gc_fns", "map (fun f => (fq f, \"unsafe\")) (filter (fun f => is_public_fn f && fs_unsafe f && returns_gc decls f) pub_fns)"),
        ("unsafe_metavars", "map (fun e => (fst (fst e) ++ \" $\" ++ snd (fst e) ++ \":\" ++ snd e, sb (metavar_harmless e))) unsafe_metavars"),
        ("coerce_fns", "map (fun f => (fq f, sb (coerce_fn_ok f))) (coerce_fns pub_fns)"),
        ("unsize_macro", "[(unsize_macro_text, sb (unsize_macro_ok unsize_macro_rules unsize_macro_matcher unsize_macro_text))]"),
        ("unknown", "map (fun s => (s, \"\")) GenSigs.unknown_items"),
    ]
    return sf.model_report("c19_report", evals)


# Which conjuring probe demonstrates a failing signature (owner::name -> probe ids).
SIG_PROBES = {"ZstCache::alloc_zst": ["zst_alloc_zst_void", "zst_alloc_zst_token"]}


def run(chk, tier, seed):
    chk.rule = ("Coq: sig_ok over every pub safe fn returning Gc/GcWeak (vm_compute, lifted) + arithmetic lemma for the ZST guard; "
                "twin: identity/survival/single-destruction/deref per (conversion x target) cell and the ZstCache (size, align) grid; "
                "probes: rustc accept/reject of conjuring programs")
    chk.checker_cmd = "translator-api -> coq_makefile/make Props/C19.vo + Print Assumptions; harness-api c19_twin; rustc on /verif/probes/c19"
    chk.trusted += [
        "Coq 8.16.1 kernel incl. vm_compute",
        "translator-api (syn 2): public signatures, alias expansion tables, the control flow of alloc_zst as a decision tree (if/else, early return, let-bound pure sub-expressions substituted; the MEANING of the conditions is decided in Coq); fails closed",
        "PARAMETRICITY (not proved): a safe fn generic in X with no parameter supplying an X and no Default-like bound cannot return a pointer to an X it made",
        "harness-api/src/bin/c19_twin.rs (run-time twin), rustc as oracle for the probes",
        "the anchor allocation is aligned to MAX_ALIGN (C17_value_aligned, other component)",
    ]
    chk.assumptions.append("PARTIAL: soundness of the signature criterion is a trusted parametricity argument; "
                           "unsize!: the caller's expression stays outside the unsafe block (token-level scan, theorem C19_macros_no_caller_code_in_unsafe); that the coercion closure only type-checks for genuine unsizing coercions is covered by probes and the twin")

    rep = {}
    with sf.locked():
        ok, summ = sf.prepare(chk, PID)
        if ok:
            sf.forbidden_scan(chk)
            okr, rep, raw = _report()
            chk.correspondence("C19: model report evaluated", okr, raw[-1500:] if not okr else "")
            sf.build_and_audit(chk, "Props/C19.v", THEOREMS)
    chk.cov["model_sigs"] = rep.get("sigs", [])
    chk.cov["model_zst"] = rep.get("zst", [])
    chk.cov["unsafe_gc_returning_fns"] = [k for k, _ in rep.get("unsafe_gc_fns", [])]
    chk.evaluations += sum(len(v) for v in rep.values())

    bad_sigs = [k for k, v in rep.get("sigs", []) if v != "true"]
    offenders = ["safe public fn returns a Gc to a type no parameter supplies: " + k for k in bad_sigs]
    offenders += ["ZstCache guard: NOT " + k for k, v in rep.get("zst", []) if v != "true"]
    offenders += ["macro_rules! %s is expanded inside the macro's own `unsafe` block (caller code runs in an unsafe context)" % k
                  for k, v in rep.get("unsafe_metavars", []) if v != "true"]
    chk.cov["model_unsafe_metavars"] = rep.get("unsafe_metavars", [])
    offenders += ["%s: the coercion closure is not FnOnce(*const _) -> *const _ (reference coercions include deref coercion)" % k
                  for k, v in rep.get("coerce_fns", []) if v != "true"]
    offenders += ["unsize!: the transcriber is not the raw-pointer one: %s" % k for k, v in rep.get("unsize_macro", []) if v != "true"]
    offenders += ["unclassified syntax: " + k for k, _ in rep.get("unknown", [])]
    chk.cov["offending_items"] = offenders

    if tier == "thorough":
        sf.thorough_coqchk(chk, ["GAApi.Props.C19"])
    okh, texth, host = sf.host_build()
    chk.correspondence("C19: crate builds (rlib for probes and twin)", okh, texth[-2000:] if not okh else "")
    if not okh:
        if offenders:
            chk.obligation("C19: offending items", False, "\n".join(offenders))
        return

    # ---- conjuring probes --------------------------------------------------------------------------
    res = sf.run_probes("c19", host)
    chk.evaluations += len(res)
    verdicts = {}
    for pid in sorted(res):
        r = res[pid]
        rc = r.get("run_rc")
        verdicts[pid] = ("accepted" if r["accepted"] else "rejected " + ",".join(r["codes"])) + ((" run=%s" % rc) if rc is not None else "")
        src = "// probe %s (item %s)\n%s" % (r["path"], r.get("item"), open(r["path"]).read())
        if r["expect"] == "reject" and r["accepted"]:
            out = (r.get("run_out") or "").strip()
            if rc == 3 or "C19-VIOLATION" in out:
                chk.violation("C19: the safe program %s obtains a Gc<T> to a T nobody constructed (run: exit %s, %s)"
                              % (pid, rc, out[-300:]), src, key=r.get("known"))
                chk.sample("violating probe: " + pid)
            else:
                chk.violation("C19: rustc ACCEPTS the safe program %s (item %s): an unsafe conversion / constructor is callable "
                              "without `unsafe`%s" % (pid, r.get("item"), (" (run exit %s)" % rc) if rc is not None else ""), src,
                              key=r.get("known"))
            continue
        good, why = sf.judge_probe(r)
        if not good:
            chk.correspondence("C19 probe %s (%s)" % (pid, r.get("item")), False, why)
    chk.cov["probe_verdicts"] = verdicts
    chk.cov["probes_total"] = len(res)
    # a failing signature must be demonstrated by its probe, otherwise the broken obligation stands
    for k in bad_sigs:
        for pid in SIG_PROBES.get(k, []):
            if pid in res and not res[pid]["accepted"]:
                chk.notes.append("signature %s fails the criterion but its probe %s is still rejected by rustc" % (k, pid))

    # ---- run-time twin ----------------------------------------------------------------------------
    okb, textb, exe = sf.harness_bin("c19_twin")
    chk.correspondence("C19: run-time twin builds against the current tree", okb, textb[-2000:] if not okb else "")
    if okb:
        rc, out = sf.run_exe(exe, timeout=120)
        checks = re.findall(r"(?m)^CHECK (\S+) (\S+) (ok|FAIL)(.*)$", out)
        skips = re.findall(r"(?m)^SKIP (\S+) (\S+)", out)
        summ = re.search(r"(?m)^SUMMARY checks=(\d+) failed=(\d+) skipped=(\d+)", out)
        fails = [(g, n, d.strip()) for g, n, s, d in checks if s == "FAIL"]
        hist = {}
        for g, n, s, d in checks:
            hist[g] = hist.get(g, 0) + 1
        chk.cov["twin_checks_by_group"] = hist
        chk.cov["twin_skipped"] = len(skips)
        chk.cov["traces_validated_against_impl"] = len(checks)
        chk.evaluations += len(checks)
        chk.distinct = len(set(n for _, n, _, _ in checks)) + len(res)
        complete = summ is not None and int(summ.group(1)) == len(checks) and len(checks) > 0
        chk.correspondence("C19: run-time twin ran to completion", complete and rc in (0, 1),
                           "" if complete else "exit code %s, %d CHECK lines, tail: %s" % (rc, len(checks), out[-600:]))
        for g, n, d in fails[:40]:
            chk.sample("twin FAIL %s %s" % (g, n))
        if fails:
            by_group = {}
            for g, n, d in fails:
                by_group.setdefault(g, []).append((n, d))
            for g, lst in sorted(by_group.items()):
                txt = "\n".join("CHECK %s %s FAIL %s" % (g, n, d) for n, d in lst[:60])
                chk.violation("C19: run-time twin, group `%s`: %d check(s) fail on the implementation (first: %s %s)"
                              % (g, len(lst), lst[0][0], lst[0][1][:200]),
                              "# re-run: %s %s\n%s" % (exe, g, txt))
        elif not complete and rc not in (0, 1):
            # crashed before the summary: a safe conversion chain crashed the process
            last = checks[-1] if checks else ("", "", "", "")
            chk.violation("C19: the run-time twin crashed (exit code %s) after check %s %s" % (rc, last[0], last[1]),
                          "# re-run: %s\n%s" % (exe, out[-3000:]))
        for g, n, s, d in checks[:4]:
            chk.sample("twin %s %s %s" % (g, n, s))

    if tier == "thorough" and okb:
        okr2, textr, exe2 = sf.harness_bin("c19_twin", release=True)
        chk.correspondence("C19: run-time twin builds in release mode", okr2, textr[-1500:] if not okr2 else "")
        if okr2:
            rc2, out2 = sf.run_exe(exe2, timeout=120)
            keep = lambda o: [l for l in o.splitlines() if l.startswith(("CHECK", "SUMMARY"))]
            same = keep(out2) == keep(out)
            chk.correspondence("C19: release-mode twin gives the same CHECK lines", same,
                               "" if same else "\n".join(l for l in keep(out2) if " FAIL " in l)[:1500])
            chk.evaluations += len(keep(out2))
    if offenders:
        chk.obligation("C19: offending items found by evaluating the checkers per item", False, "\n".join(offenders))


def replay(path):
    txt = open(path).read()
    if "no concrete failing input was found" in txt[:200]:
        print(txt)   # names the theorem / correspondence that no longer checks; nothing to re-run
        return 0
    if "# re-run:" in txt:
        okb, textb, exe = sf.harness_bin("c19_twin")
        if not okb:
            print("twin does not build:\n" + textb)
            return 1
        m = re.search(r"# re-run: \S+ ?(\S*)", txt)
        rc, out = sf.run_exe(exe, args=[m.group(1)] if m and m.group(1) else [])
        print("\n".join(l for l in out.splitlines() if " FAIL " in l or l.startswith("SUMMARY")))
        return 1 if rc != 0 else 0
    m = re.search(r"(?m)^// probe (\S+)", txt)
    src = txt[txt.index("// probe "):] if "// probe " in txt else txt
    okh, texth, host = sf.host_build()
    if not okh:
        print("crate does not build:\n" + texth)
        return 1
    name = os.path.splitext(os.path.basename(m.group(1)))[0] if m else "replay"
    r = sf.compile_probe(name + ".rs", host, os.path.join(sf.API_BUILD, "replay"), src_text=src)
    print("required: rejected by rustc.  observed: %s %s" % ("ACCEPTED" if r["accepted"] else "rejected", r["codes"]))
    if r["accepted"]:
        rc, out = sf.run_exe(r["exe"])
        print("run: exit code %s\n%s" % (rc, out))
        return 1
    return 0
