"""C16 — provided Collect impls for containers are exact in every position.

Pipeline (DESIGN.md section 6):
  1. translator-collect regenerates coq-collect/Gen/GenCollectImpls.v (+ impls.json) from the
     current working tree of the crate ($VERIF_REPO, default /repo);
  2. `make` re-checks Props/C16.v (C16_all_wf etc. are vm_compute checks over the regenerated list,
     lifted by the generic theorem C16_wf_exact to contents of every size);
  3. audit: Print Assumptions, forbidden-word scan, statement pins;
  4. twin: for every feature set, the real `Collect::trace` of every provided impl is run under a
     recording `Trace` implementation on values with tokens in known positions; the result is
     compared (a) with what was inserted (the property itself, on the implementation) and (b) with
     `sem` / `needs_trace_val` of the TRANSLATED impl evaluated by coqc (vm_compute); plus an
     end-to-end survival run through a real collection per container kind.
Failure protocol: a broken theorem is diagnosed per impl (wf_report) and the twin of the failing
impl supplies the concrete container value with the missed pointer.
"""
import concurrent.futures, itertools, json, os, re, shutil, time
import vlib

PID = "C16"
SETUP_KEY = "c16"
V = vlib.VERIF
TRANS_DIR = os.path.join(V, "translator-collect")
COQ_DIR = os.path.join(V, "coq-collect")
HARN_DIR = os.path.join(V, "harness-collect")
GEN = os.path.join(COQ_DIR, "Gen")
LOGICAL = "GACollect"
B16 = os.path.join(vlib.BUILD, "c16")
OPT_FEATURES = ["hashbrown", "indexmap", "slotmap", "smallvec", "enum-map"]
SLOTS = 6

THEOREMS = ["C16_wf_exact", "C16_all_wf", "C16_exact_every_impl", "C16_dyn_adapter_exact", "C16_no_trace_only_static",
            "C16_covers_named_types"]

# Statement pins: a theorem cannot be quietly weakened (checked with `Check name : statement.`).
PINS = {
    "C16_wf_exact": """forall (T : tables) (td : stmt) (i : impl),
    wf_impl T td i = true ->
    (forall c, content_ok i c -> Permutation (sem T td i c) (all_pointers T i c)) /\\
    (forall rho, needs_trace_val i rho = has_own T i || existsb rho (collect_params i))""",
    "C16_all_wf": "forallb (wf_impl tables_real trace_default) (filter in_scope impls) = true",
    "C16_exact_every_impl": """forall i, In i impls -> in_scope i = true ->
    (forall c, content_ok i c ->
       Permutation (sem tables_real trace_default i c) (all_pointers tables_real i c)) /\\
    (forall rho, needs_trace_val i rho = has_own tables_real i || existsb rho (collect_params i))""",
    "C16_dyn_adapter_exact": """dyn_adapter_ok dyn_adapter_real = true /\\
  (forall a evs, dyn_adapter_ok a = true -> through_adapter a evs = evs) /\\
  (forall i, In i impls -> in_scope i = true ->
     forall c, content_ok i c ->
       Permutation (sem_dyn tables_real trace_default dyn_adapter_real i c) (all_pointers tables_real i c))""",
    "C16_no_trace_only_static": """forall i, In i impls -> in_scope i = true -> claims_no_trace i = true ->
    (self_static i = true \\/
     Forall (fun b => b_static b = true) (type_params i) \\/
     i_tycon i = "std::PhantomData"%string) /\\
    has_own tables_real i = false /\\ collect_params i = [] /\\
    (forall p, In p (stored_positions tables_real i) -> In p (static_tys i))""",
    "C16_covers_named_types": """forall t, In t required_ids ->
    exists i, In i impls /\\ i_id i = t /\\ in_scope i = true""",
}
# The checker's scope and the named type constructors are pinned as well (hand-written tables).
PIN_OUT_OF_SCOPE = '["crate::Inner"; "crate::Slot"; "crate::Slots"; "dyn:DynCollect"]%string'

OUT_OF_SCOPE = ["crate::Inner", "crate::Slot", "crate::Slots", "dyn:DynCollect"]

TRUSTED = [
    "Coq 8.16.1 kernel (coqc; coqchk in the thorough tier); vm_compute for the finite checks",
    "translator-collect (syn 2 based; macro_rules expander for static_collect!/impl_tuple!; hygienic inlining of in-crate helper functions / methods called from trace with depth limit 4, let-substitution of pure places, negation normal form of constant guards); fails closed on unknown syntax",
    "ModelTables.v: which iteration / deref / match constructs are total for each type constructor, which positions a type stores, which types own a pointer field (modelled, not verified: std / hashbrown / indexmap / slotmap / smallvec / enum-map iterators visit every element exactly once)",
    "harness-collect: token element types El / Pl and Root with their own Collect impls, the recording Trace implementation, address -> token id map",
    "rustc/cargo building the harness against the working tree for each feature set",
    "meaning of NEEDS_TRACE = false and of a 'static bound: such a value owns no arena pointer (hypothesis content_ok of the theorem)",
]


# ---------------------------------------------------------------------------------------------
# translator
# ---------------------------------------------------------------------------------------------
def translator_bin():
    key = vlib.tree_hash([os.path.join(TRANS_DIR, "src"), os.path.join(TRANS_DIR, "Cargo.toml")])
    tdir = os.path.join(vlib.BUILD, "translator-collect")
    stamp = os.path.join(tdir, "built-" + key)
    binp = os.path.join(tdir, "debug", "translator-collect")
    if os.path.exists(stamp) and os.path.exists(binp):
        return True, binp, "cached"
    os.makedirs(tdir, exist_ok=True)
    rc, out = vlib.run(["cargo", "build", "--offline", "--target-dir", tdir], cwd=TRANS_DIR, timeout=600)
    if rc != 0:
        return False, binp, out
    for f in os.listdir(tdir):
        if f.startswith("built-"):
            os.remove(os.path.join(tdir, f))
    open(stamp, "w").write(key)
    return True, binp, out


def run_translator():
    ok, binp, out = translator_bin()
    if not ok:
        return False, "translator does not build:\n" + out, None
    os.makedirs(GEN, exist_ok=True)
    rc, out = vlib.run([binp, GEN], timeout=120, env={"VERIF_REPO": vlib.REPO})
    if rc != 0:
        return False, "translator failed:\n" + out, None
    try:
        meta = json.load(open(os.path.join(GEN, "impls.json")))
    except Exception as ex:
        return False, "impls.json unreadable: %r" % ex, None
    return True, out.strip(), meta


# ---------------------------------------------------------------------------------------------
# harness builds (one binary per feature set), cached by content of /repo and of the harness
# ---------------------------------------------------------------------------------------------
def feature_sets(tier):
    sets = [("default", ["std"])]
    for f in OPT_FEATURES:
        sets.append((f, ["std", f]))
    sets.append(("all", ["std"] + OPT_FEATURES))
    if tier == "thorough":
        seen = {tuple(s[1]) for s in sets}
        for r in range(2, len(OPT_FEATURES)):
            for comb in itertools.combinations(OPT_FEATURES, r):
                fs = ["std"] + list(comb)
                if tuple(fs) not in seen:
                    seen.add(tuple(fs))
                    sets.append(("+".join(comb), fs))
        sets.append(("no-std", []))
        sets.append(("no-std+all", list(OPT_FEATURES)))
    return sets


def repo_key():
    import hashlib
    return hashlib.sha256(os.path.abspath(vlib.REPO).encode()).hexdigest()[:10]


def content_key():
    return vlib.repo_hash(extra=[vlib.tree_hash([os.path.join(HARN_DIR, "src"),
                                                 os.path.join(HARN_DIR, "Cargo.toml.in")])])


def prepare_crate():
    base = os.path.join(B16, repo_key())
    crate = os.path.join(base, "crate")
    os.makedirs(crate, exist_ok=True)
    toml = open(os.path.join(HARN_DIR, "Cargo.toml.in")).read().replace("@REPO@", os.path.abspath(vlib.REPO))
    tp = os.path.join(crate, "Cargo.toml")
    if not os.path.exists(tp) or open(tp).read() != toml:
        open(tp, "w").write(toml)
    link = os.path.join(crate, "src")
    if not os.path.islink(link):
        if os.path.exists(link):
            shutil.rmtree(link)
        os.symlink(os.path.join(HARN_DIR, "src"), link)
    # the dependency versions of /repo's lock file
    shutil.copy(os.path.join(vlib.REPO, "Cargo.lock"), os.path.join(crate, "Cargo.lock"))
    return base, crate


def prune_bins(bindir, keep):
    try:
        ds = sorted((os.path.getmtime(os.path.join(bindir, d)), d) for d in os.listdir(bindir))
    except OSError:
        return
    for _, d in ds[:-keep] if len(ds) > keep else []:
        shutil.rmtree(os.path.join(bindir, d), ignore_errors=True)


def build_harness(sets):
    """Returns {setname: (ok, binpath, log)}. Binaries are cached under the content key."""
    base, crate = prepare_crate()
    key = content_key()
    bindir = os.path.join(base, "bin", key)
    os.makedirs(bindir, exist_ok=True)
    res, todo = {}, []
    for name, feats in sets:
        bp = os.path.join(bindir, "harness-" + name)
        if os.path.exists(bp):
            res[name] = (True, bp, "cached")
        else:
            todo.append((name, feats, bp))
    if not todo:
        os.utime(bindir, None)
        return res

    slots = [[] for _ in range(min(SLOTS, len(todo)))]
    for k, t in enumerate(todo):
        slots[k % len(slots)].append(t)

    def work(slot_no, items):
        out = {}
        tdir = os.path.join(base, "target-%d" % slot_no)
        # cargo decides freshness by mtime; the cache key is by content. Force gc-arena (and its
        # derive crate) to be re-fingerprinted so that a restored-with-old-mtime file is rebuilt.
        fp = os.path.join(tdir, "debug", ".fingerprint")
        if os.path.isdir(fp):
            for d in os.listdir(fp):
                if d.startswith("gc-arena-") or d.startswith("harness-collect-"):
                    shutil.rmtree(os.path.join(fp, d), ignore_errors=True)
        for name, feats, bp in items:
            cmd = ["cargo", "build", "--offline", "--target-dir", tdir, "--no-default-features"]
            if feats:
                cmd += ["--features", ",".join(feats)]
            rc, log = vlib.run(cmd, cwd=crate, timeout=900, env={"RUSTFLAGS": ""})
            if rc == 0:
                shutil.copy(os.path.join(tdir, "debug", "harness-collect"), bp)
                out[name] = (True, bp, log[-2000:])
                # keep the target dir small: the binary has been copied out
                deps = os.path.join(tdir, "debug", "deps")
                for f in os.listdir(deps):
                    if f.startswith("harness_collect-") and not f.endswith(".d"):
                        try:
                            os.remove(os.path.join(deps, f))
                        except OSError:
                            pass
            else:
                out[name] = (False, bp, log[-6000:])
        return out

    with concurrent.futures.ThreadPoolExecutor(max_workers=len(slots)) as ex:
        futs = [ex.submit(work, k, items) for k, items in enumerate(slots)]
        for f in futs:
            res.update(f.result())
    prune_bins(os.path.join(base, "bin"), 2)
    return res


def run_harness(binp, mode, seed, counts=None, only=None):
    cmd = [binp, mode, "--seed", str(seed)]
    if only:
        cmd += ["--only", only]
    if counts and mode == "twin":
        cmd += [str(c) for c in counts]
    rc, out = vlib.run(cmd, timeout=300)
    recs = []
    for l in out.splitlines():
        l = l.strip()
        if l.startswith("{"):
            try:
                recs.append(json.loads(l))
            except Exception:
                pass
    return rc, recs, out


# ---------------------------------------------------------------------------------------------
# the property evaluated on the implementation's observed traces
# ---------------------------------------------------------------------------------------------
def multiset(ps):
    m = {}
    for p in ps:
        k = (p[0], p[1])
        m[k] = m.get(k, 0) + 1
    return m


def inserted_of(case):
    ins = []
    for (_n, _nt, elems) in case["pos"]:
        for e in elems:
            ins.extend(e)
    for (_f, pid, s) in case["own"]:
        ins.append([pid, s])
    return ins


def missing(ins, traced):
    a, b = multiset(ins), multiset(traced)
    out = []
    for k, n in a.items():
        if b.get(k, 0) < n:
            out.append(k)
    return out


def oracle(case):
    """Returns a list of human-readable violations of C16 shown by this real trace."""
    ins = inserted_of(case)
    probs = []
    md = missing(ins, case["direct"])
    if md:
        probs.append(("Collect::trace does not report %s" % fmt_ptrs(md), md))
    mg = missing(ins, case["guarded"])
    if mg and not md:
        probs.append(("Trace::trace(&value) (the NEEDS_TRACE-guarded entry every parent uses) does not report %s; "
                      "NEEDS_TRACE of the value's type is %s" % (fmt_ptrs(mg), case["real_nt"]), mg))
    any_nt = any(nt for (_n, nt, _e) in case["pos"]) or bool(case["own"])
    if any_nt and not case["real_nt"] and not mg and not md:
        probs.append(("NEEDS_TRACE is false although a parameter's NEEDS_TRACE is true "
                      "(no pointer happened to be stored in this value)", []))
    return probs


def dyn_oracle(case):
    """A value traced through a trait object: everything held is reported (oracle) and nothing else, no strength changed."""
    probs = oracle(case)
    ins = multiset(inserted_of(case))
    for label in ("direct", "guarded"):
        extra = [k for k, n_ in multiset(case[label]).items() if ins.get(k, 0) < n_]
        if extra and not probs:
            probs.append(("through the trait object, %s reports %s which the value does not hold with that strength" % (
                "Collect::trace" if label == "direct" else "Trace::trace(&value)", fmt_ptrs(extra)), extra))
    return probs


def fmt_ptrs(ps):
    return ", ".join("%s pointer #%d" % ("strong" if s == "S" else "weak", i) for (i, s) in ps)


def describe_case(case, setname):
    lines = ["impl: %s" % case["impl"], "feature set: %s" % setname, "value type: %s" % case["inst"],
             "NEEDS_TRACE (real): %s" % case["real_nt"]]
    for (n, nt, elems) in case["pos"]:
        lines.append("position %s (element type NEEDS_TRACE=%s): %d element(s): %s" % (
            n, nt, len(elems), json.dumps(elems)))
    for (f, pid, s) in case["own"]:
        lines.append("own pointer field %s: #%d %s" % (f, pid, s))
    lines.append("inserted pointers: %s" % json.dumps(inserted_of(case)))
    lines.append("reported by Collect::trace (recording tracer): %s" % json.dumps(case["direct"]))
    lines.append("reported by Trace::trace(&value):              %s" % json.dumps(case["guarded"]))
    return "\n".join(lines)


# ---------------------------------------------------------------------------------------------
# model side: evaluate the translated impls on the same contents with coqc
# ---------------------------------------------------------------------------------------------
def coq_str(s):
    return '"' + s.replace('"', '""') + '"'


def pos_name(impl_meta, harness_name):
    m = re.match(r"arg(\d+)(::(\w+))?$", harness_name)
    if not m:
        return harness_name
    k = int(m.group(1))
    args = impl_meta["args"]
    base = args[k] if k < len(args) else "?arg%d" % k
    return base + ("::" + m.group(3) if m.group(3) else "")


def renumber(case):
    """Pointer ids -> 1..k (keeps Coq nat literals small)."""
    ids = {}

    def r(i):
        if i not in ids:
            ids[i] = len(ids) + 1
        return ids[i]
    c = {"pos": [[n, nt, [[[r(p[0]), p[1]] for p in e] for e in elems]] for (n, nt, elems) in case["pos"]],
         "own": [[f, r(i), s] for (f, i, s) in case["own"]],
         "direct": [[r(p[0]), p[1]] for p in case["direct"]],
         "guarded": [[r(p[0]), p[1]] for p in case["guarded"]]}
    return c


def coq_ptrs(ps):
    return "[" + "; ".join("(%d, %s)" % (i, "Strong" if s == "S" else "Weak") for (i, s) in ps) + "]"


def gen_cases_v(cases, meta_by_id, offset=0):
    L = ["(* GENERATED by scripts/props/c16.py from the harness output. *)",
         "From Coq Require Import List String Bool Arith.",
         "From GACollect Require Import ModelDSL ModelTables.",
         "From GACollect.Gen Require Import GenCollectImpls.",
         "Import ListNotations.", "Open Scope string_scope.", "Open Scope list_scope.", "",
         "Definition mk (pos : list (string * (bool * list elem))) (own : list (string * ptr)) : content :=",
         "  {| c_pos := fun p => match assoc p pos with Some b => snd b | None => [] end;",
         "     c_nt := fun p => match assoc p pos with Some b => fst b | None => false end;",
         "     c_own := fun f => match assoc f own with Some q => q | None => 0 end |}.",
         "Definition ptr_eqb (a b : pointer) : bool := Nat.eqb (fst a) (fst b) && strength_eqb (snd a) (snd b).",
         "Fixpoint cnt (x : pointer) (l : list pointer) : nat :=",
         "  match l with [] => 0 | y :: r => (if ptr_eqb x y then 1 else 0) + cnt x r end.",
         "Definition ms_eqb (a b : list pointer) : bool :=",
         "  Nat.eqb (List.length a) (List.length b) && forallb (fun x => Nat.eqb (cnt x a) (cnt x b)) a.",
         "Definition check (k : nat) (id : string) (c : content) (nt : bool) (direct guarded : list pointer) : list (nat * string) :=",
         "  match find (fun i => String.eqb (i_id i) id) impls with",
         "  | None => [(k, \"no translated impl\")]",
         "  | Some i =>",
         "      let s := sem tables_real trace_default i c in",
         "      let n := needs_trace_val i (c_nt c) in",
         "      (if ms_eqb s direct then [] else [(k, \"sem <> Collect::trace\")]) ++",
         "      (if Bool.eqb n nt then [] else [(k, \"needs_trace <> NEEDS_TRACE\")]) ++",
         "      (if ms_eqb (td_call trace_default (n, [s])) guarded then [] else [(k, \"guarded sem <> Trace::trace\")])",
         "  end.", "",
         "Definition results : list (nat * string) :=", "  List.concat ["]
    rows = []
    for k, (case, _sets) in enumerate(cases, offset):
        im = meta_by_id.get(case["impl"])
        c = renumber(case)
        pos = "[" + "; ".join("(%s, (%s, [%s]))" % (
            coq_str(pos_name(im, n) if im else n), "true" if nt else "false",
            "; ".join(coq_ptrs(e) for e in elems)) for (n, nt, elems) in c["pos"]) + "]"
        own = "[" + "; ".join("(%s, %d)" % (coq_str(f), i) for (f, i, _s) in c["own"]) + "]"
        rows.append("    check %d %s (mk %s %s) %s %s %s" % (
            k, coq_str(case["impl"]), pos, own, "true" if case["real_nt"] else "false",
            coq_ptrs(c["direct"]), coq_ptrs(c["guarded"])))
    L.append(";\n".join(rows) if rows else "")
    L += ["  ].", "", "Eval vm_compute in results.", ""]
    return "\n".join(L)


DIAG_V = """(* GENERATED by scripts/props/c16.py: per-impl diagnosis. *)
From Coq Require Import List String Bool.
From GACollect Require Import ModelDSL ModelTables.
From GACollect.Gen Require Import GenCollectImpls.
Import ListNotations.
Open Scope string_scope.
Eval vm_compute in
  (map (fun i => (i_id i, wf_report tables_real trace_default i))
       (filter (fun i => in_scope i && negb (wf_impl tables_real trace_default i)) impls)).
Eval vm_compute in
  (filter (fun t => negb (existsb (fun i => String.eqb (i_id i) t && in_scope i) impls)) required_ids).
Eval vm_compute in
  (map i_id (filter (fun i => in_scope i && claims_no_trace i && negb (no_trace_ok i)) impls)).
Eval vm_compute in (td_ok trace_default).
"""


def write_if_changed(path, text):
    try:
        if open(path).read() == text:
            return False
    except OSError:
        pass
    with open(path, "w") as f:
        f.write(text)
    return True


def coqc_gen(name, text, timeout=600):
    p = os.path.join(GEN, name)
    write_if_changed(p, text)
    rc, out = vlib.run(["coqc", "-q", "-Q", ".", LOGICAL, os.path.join("Gen", name)], cwd=COQ_DIR, timeout=timeout)
    return rc, out


def parse_coq_pairs(block):
    """Parse `= [(a, "s"); ...] : ...` blocks printed by Eval (loose)."""
    return block


def diagnose():
    """Returns (ok, failing: {impl_id: [components]}, missing_required, bad_no_trace, td_ok, raw)."""
    # the model files must be compiled (make may have stopped before them)
    for f in ["ModelDSL.v", "ModelTables.v", "Gen/GenCollectImpls.v"]:
        vo = os.path.join(COQ_DIR, f[:-2] + ".vo")
        src = os.path.join(COQ_DIR, f)
        if (not os.path.exists(vo)) or os.path.getmtime(vo) < os.path.getmtime(src):
            rc, out = vlib.run(["coqc", "-q", "-Q", ".", LOGICAL, f], cwd=COQ_DIR, timeout=300)
            if rc != 0:
                return False, {}, [], [], None, "cannot compile %s:\n%s" % (f, out)
    rc, out = coqc_gen("GenDiag.v", DIAG_V)
    if rc != 0:
        return False, {}, [], [], None, out
    blocks = re.split(r"(?m)^\s*=\s", out)[1:]
    blocks = [re.split(r"(?m)^\s*:\s", b)[0] for b in blocks]
    failing = {}
    if len(blocks) >= 1:
        for m in re.finditer(r'\(\s*"((?:[^"]|"")*)",\s*\[([^\]]*)\]\s*\)', blocks[0]):
            failing[m.group(1).replace('""', '"')] = re.findall(r'"([^"]*)"', m.group(2))
    miss = re.findall(r'"((?:[^"]|"")*)"', blocks[1]) if len(blocks) >= 2 else []
    badnt = re.findall(r'"((?:[^"]|"")*)"', blocks[2]) if len(blocks) >= 3 else []
    tdok = ("true" in blocks[3]) if len(blocks) >= 4 else None
    return True, failing, miss, badnt, tdok, out


def gate_enabled(gate, feats):
    for g in gate:
        if g.startswith("feature:"):
            if g[len("feature:"):] not in feats:
                return False
        elif g == "cfg:target_has_atomic=ptr":
            continue   # x86_64: true
        else:
            return None  # unknown cfg
    return True


# ---------------------------------------------------------------------------------------------
# setup / run / replay
# ---------------------------------------------------------------------------------------------
def setup():
    ok, msg, _ = run_translator()
    vlib.log("[c16 setup] translator: %s" % msg[:300])
    ok2, out = vlib.coq_make(COQ_DIR, timeout=1500, jobs=8)
    vlib.log("[c16 setup] coq make: %s" % ("ok" if ok2 else out[-2000:]))
    res = build_harness(feature_sets("quick"))
    bad = [n for n, r in res.items() if not r[0]]
    vlib.log("[c16 setup] harness builds: %d ok, failed=%s" % (len(res) - len(bad), bad))
    if not (ok and ok2 and not bad):
        raise RuntimeError("c16 setup failed")


def counts_for(tier):
    return [0, 1, 2, 3, 4, 17] if tier == "quick" else [0, 1, 2, 3, 4, 5, 8, 17, 33, 100]


def _run(chk, tier, seed):
    chk.trusted = TRUSTED
    chk.rule = ("every in-scope `unsafe impl Collect` of the working tree is wf_impl (vm_compute over the regenerated "
                "list) => by C16_wf_exact its trace is a permutation of all pointers held, for contents of every size; "
                "twin: real trace = inserted pointers = sem of the translated impl, per feature set")
    chk.checker_cmd = "translator-collect; make (coqc, full .vo) in coq-collect; coqc Print Assumptions; harness-collect twin/survive; coqc Gen/GenCases.v"
    t0 = time.time()

    # ---- 1. translate -------------------------------------------------------------------
    ok, msg, meta = run_translator()
    if not ok:
        chk.correspondence("translator ran on the working tree", False, msg)
        return
    chk.correspondence("translator ran on the working tree", True, msg)
    impls = meta["impls"]
    meta_by_id = {i["id"]: i for i in impls}
    in_scope = [i for i in impls if i["tycon"] not in OUT_OF_SCOPE]
    unknown_impls = {i["id"]: i["unknown"] for i in in_scope if i["unknown"] or i["id"].startswith("unknown:")}
    chk.cov["translated_impls"] = len(impls)
    chk.cov["in_scope_impls"] = len(in_scope)
    chk.cov["out_of_scope_impls"] = [i["id"] for i in impls if i["tycon"] in OUT_OF_SCOPE]
    chk.cov["translator_unknown"] = unknown_impls
    chk.cov["translator_notes"] = meta.get("notes", [])
    chk.cov["uninvoked_collect_macros (user-facing, not modelled)"] = meta.get("uninvoked_collect_macros", [])
    t1 = time.time()

    # ---- 2. prove -----------------------------------------------------------------------
    made, mout = vlib.coq_make(COQ_DIR, timeout=1500, jobs=8)
    t2 = time.time()

    # ---- 3. audit -----------------------------------------------------------------------
    hits = vlib.coq_forbidden_scan(COQ_DIR)
    chk.obligation("no Admitted/Axiom/... in coq-collect", not hits, "\n".join(hits))
    proof_ok = False
    if made:
        okp, ax, raw = vlib.coq_print_assumptions(COQ_DIR, LOGICAL, "Props/C16.v", timeout=600)
        if okp:
            proof_ok = True
            for th in THEOREMS:
                a = ax.get(th, ["<missing>"])
                bad = [x for x in a if x not in vlib.ALLOWED_AXIOMS]
                chk.obligation(th, not bad, "axioms: %s" % a)
                chk.assumptions.append("%s: %s" % (th, "Closed under the global context" if not a else a))
                proof_ok = proof_ok and not bad
            pins = ["From Coq Require Import List String Bool Permutation.",
                    "From GACollect Require Import ModelDSL ModelTables Props.C16.",
                    "From GACollect.Gen Require Import GenCollectImpls.",
                    "Import ListNotations."]
            for th in THEOREMS:
                pins.append("Check (%s : %s)." % (th, PINS[th]))
            pins.append("Check (eq_refl : out_of_scope = %s)." % PIN_OUT_OF_SCOPE)
            rc, pout = coqc_gen("GenPins.v", "\n".join(pins) + "\n")
            chk.obligation("statement pins (theorems say what scripts/props/c16.py records)", rc == 0, pout[-3000:])
            proof_ok = proof_ok and rc == 0
        else:
            for th in THEOREMS:
                chk.obligation(th, False, raw[-3000:])
    t3 = time.time()

    failing, miss_req, bad_nt, tdok = {}, [], [], None
    if not proof_ok:
        dok, failing, miss_req, bad_nt, tdok, draw = diagnose()
        detail = "make output (tail):\n%s\n\ndiagnosis:\n%s" % (mout[-3000:], draw[-3000:])
        if not made:
            names = ", ".join(sorted(failing)) or "(none failing wf_impl)"
            chk.obligation("C16_all_wf (Props/C16.v over the regenerated GenCollectImpls.v)", False,
                           "impls failing wf_impl: %s\nwf_report: %s\nmissing required type constructors: %s\n"
                           "no-trace impls that are not static: %s\ntd_ok(Trace::trace default body): %s\n%s" % (
                               names, json.dumps(failing), miss_req, bad_nt, tdok, detail))
        chk.cov["wf_failing"] = failing
        chk.cov["missing_required"] = miss_req

    # ---- 4. twin ------------------------------------------------------------------------
    sets = feature_sets(tier)
    builds = build_harness(sets)
    t4 = time.time()
    counts = counts_for(tier)
    all_cases = {}       # key -> (case, [sets])
    exercised_by_set, gaps, violations = {}, {}, []
    dyn_all = {}
    n_eval = 0
    for name, feats in sets:
        okb, binp, blog = builds[name]
        if not okb:
            chk.correspondence("harness builds against the working tree [%s]" % name, False, blog)
            continue
        rc, recs, raw = run_harness(binp, "twin", seed, counts)
        summ = [r for r in recs if r.get("kind") == "summary"]
        if rc != 0 or not summ:
            chk.correspondence("twin run [%s]" % name, False, raw[-3000:])
            continue
        cases = [r for r in recs if r.get("kind") == "case"]
        n_eval += 2 * len(cases)
        ex = set(summ[0]["exercised"])
        exercised_by_set[name] = sorted(ex)
        # coverage: every translated in-scope impl enabled under this feature set has a twin
        expected, unknown_gate = [], []
        for i in in_scope:
            g = gate_enabled(i["gate"], feats)
            if g is None:
                unknown_gate.append(i["id"])
            elif g:
                expected.append(i["id"])
        gap = sorted(set(expected) - ex) + ["%s (unknown cfg gate %s)" % (u, meta_by_id[u]["gate"]) for u in unknown_gate]
        extra = sorted(ex - set(expected))
        gaps[name] = gap
        chk.correspondence("coverage: every translated impl enabled under [%s] has a recording-tracer twin" % name,
                           not gap and not extra,
                           "translated impls without a twin: %s; twins without a translated impl: %s" % (gap, extra))
        # the property on the implementation
        bad_here = 0
        for c in cases:
            for (desc, ptrs) in oracle(c):
                bad_here += 1
                violations.append((c, name, desc, ptrs))
            key = json.dumps([c["impl"], renumber(c), c["real_nt"]], sort_keys=True)
            if key in all_cases:
                all_cases[key][1].append(name)
            else:
                all_cases[key] = (c, [name])
        # the object-safe adapter (DynCollect / dyn_collect!): the same oracle, plus exactness (nothing extra, no
        # strength changed) -- a weak pointer reported as strong through a trait object retains its target (C02),
        # one not reported at all lets its target be freed under the holder (C05)
        dcases = [r for r in recs if r.get("kind") == "dyncase"]
        n_eval += 2 * len(dcases)
        for c in dcases:
            for (desc, ptrs) in dyn_oracle(c):
                violations.append((c, name, desc, ptrs))
            dyn_all.setdefault(json.dumps([c["impl"], renumber(c)], sort_keys=True), c)
        # survival
        rc, recs2, raw = run_harness(binp, "survive", seed)
        recs = recs2
        sv = [r for r in recs if r.get("kind") == "survive"]
        n_eval += len(sv)
        probs = [(r["impl"], r["problems"]) for r in sv if r["problems"]]
        chk.correspondence("end-to-end survival through finish_cycle x2 per container kind [%s]" % name,
                           rc == 0 and sv and not probs, json.dumps(probs)[:3000] if probs else raw[-500:] if rc else "%d kinds" % len(sv))
        for (iid, ps) in probs:
            violations.append(({"impl": iid, "inst": "(root of a real arena)", "pos": [], "own": [], "real_nt": None,
                                "direct": [], "guarded": [], "survive": ps}, name,
                               "after two full collection cycles: " + "; ".join(ps[:4]), []))
        chk.cov.setdefault("survival_kinds", {})[name] = [r["impl"] for r in sv]
    t5 = time.time()

    # report concrete violations (one per impl x description class)
    seen = set()
    # most informative first: a missed pointer in a recorded trace, then survival, then constants only
    violations.sort(key=lambda v: (0 if v[3] else (1 if "survive" in v[0] else 2)))
    for (c, setname, desc, ptrs) in violations:
        k = (c["impl"], "survive" if "survive" in c else desc.split(" ")[0])
        if k in seen:
            continue
        seen.add(k)
        if len(seen) > 6:
            chk.notes.append("further violating impl (not written as a separate replay): %s: %s" % (c["impl"], desc[:200]))
            continue
        wf = failing.get(c["impl"])
        text = ("property C16 violated by the implementation on a concrete container value\n"
                "%s\n\nVIOLATION: %s\n%s\nreplay: impl=%s features=%s seed=%d\n" % (
                    describe_case(c, setname) if "survive" not in c else
                    "impl: %s\nfeature set: %s\n%s" % (c["impl"], setname, "\n".join(c["survive"])),
                    desc,
                    ("checker: wf_impl = false for this impl, failing components %s (Props/C16.v: C16_all_wf no longer checks)" % wf)
                    if wf else "",
                    c["impl"], setname, seed))
        chk.violation("%s: %s" % (c["impl"], desc), text)

    # model vs implementation on the same contents
    case_list = list(all_cases.values())
    nchunk = max(1, min(6, (len(case_list) + 119) // 120))
    per = (len(case_list) + nchunk - 1) // nchunk if case_list else 1
    chunks = [(k, case_list[k:k + per]) for k in range(0, max(len(case_list), 1), per)]
    with concurrent.futures.ThreadPoolExecutor(max_workers=len(chunks)) as ex:
        outs = list(ex.map(lambda kc: coqc_gen("GenCases%d.v" % (kc[0] // per),
                                                gen_cases_v(kc[1], meta_by_id, kc[0]), timeout=900), chunks))
    rc = max(o[0] for o in outs)
    cout = "\n".join(o[1].split("=", 1)[1] if (o[0] == 0 and "=" in o[1]) else o[1] for o in outs)
    t6 = time.time()
    if rc != 0:
        chk.correspondence("model evaluation of the twin cases (coqc Gen/GenCases.v)", False, cout[-3000:])
    else:
        body = cout
        mism = re.findall(r'\((\d+),\s*"([^"]*)"\)', body)
        by_kind = {}
        for (k, what) in mism:
            by_kind.setdefault(what, []).append(int(k))
        detail = ""
        if mism:
            k0 = int(mism[0][0])
            c0, s0 = case_list[k0]
            detail = "%d mismatching evaluations %s; first: %s\n%s" % (
                len(mism), {w: len(v) for w, v in by_kind.items()}, mism[0][1], describe_case(c0, ",".join(s0)))
        chk.correspondence("sem / needs_trace_val of every translated impl = real Collect::trace / Trace::trace / NEEDS_TRACE "
                           "on %d distinct contents (vm_compute)" % len(case_list), not mism, detail)
        n_eval += 3 * len(case_list)

    # the adapter read from the source, applied to what the value holds = what the real tracer recorded
    if dyn_all:
        dl = list(dyn_all.values())
        lines = ["From Coq Require Import List String Bool.", "From GACollect Require Import ModelDSL.",
                 "From GACollect.Gen Require Import GenCollectImpls.", "Import ListNotations.",
                 "Definition ev_eqb (a b : pointer) : bool := Nat.eqb (fst a) (fst b) && match snd a, snd b with Strong, Strong | Weak, Weak => true | _, _ => false end.",
                 "Fixpoint count (x : pointer) (l : list pointer) : nat := match l with [] => 0 | y :: r => (if ev_eqb x y then 1 else 0) + count x r end.",
                 "Definition same (a b : list pointer) : bool := Nat.eqb (List.length a) (List.length b) && forallb (fun x => Nat.eqb (count x a) (count x b)) a.",
                 "Definition dyn_cases : list (list pointer * list pointer) := ["]
        rows = []
        for c in dl:
            rc_ = renumber(c)
            rows.append("  (%s, %s)" % (coq_ptrs(inserted_of(rc_)), coq_ptrs(rc_["direct"])))
        lines.append(";\n".join(rows) + "].")
        lines.append("Eval vm_compute in (map (fun p => same (through_adapter dyn_adapter_real (fst p)) (snd p)) dyn_cases).")
        rcd, dout = coqc_gen("GenDynCases.v", "\n".join(lines) + "\n")
        flags = re.findall(r"\b(true|false)\b", dout.split("=", 1)[1]) if (rcd == 0 and "=" in dout) else []
        okd = rcd == 0 and len(flags) == len(dl) and all(f == "true" for f in flags)
        bad = [dl[k]["impl"] for k, f in enumerate(flags) if f != "true"]
        chk.correspondence("through_adapter dyn_adapter_real (pointers held) = real trace through the trait object on %d distinct dyn cases (vm_compute)" % len(dl),
                           okd, ("mismatching: %s" % bad) if rcd == 0 else dout[-2000:])
        chk.cov["dyn_adapter_cases"] = sorted(set(c["impl"] for c in dl))
        n_eval += len(dl)
    else:
        chk.correspondence("the harness produced trait-object (dyn adapter) cases", False, "no dyncase records")

    # translator Unknown with no failing input found: a broken obligation (fail closed)
    if unknown_impls and proof_ok:
        # cannot happen (Unknown makes wf_impl false), kept as a guard
        chk.obligation("translator understood every in-scope impl", False, json.dumps(unknown_impls))

    chk.evaluations = n_eval
    chk.distinct = sum(1 for (c, _s) in case_list if inserted_of(c))
    chk.cov["traces_validated_against_impl"] = sum(len(s) for (_c, s) in case_list)
    chk.cov["feature_sets"] = [n for n, _ in sets]
    chk.cov["exercised_by_set"] = exercised_by_set
    chk.cov["coverage_gaps"] = gaps
    hist = {}
    for (c, _s) in case_list:
        hist[c["impl"]] = hist.get(c["impl"], 0) + 1
    chk.cov["distinct_cases_per_impl"] = hist
    chk.cov["element_counts"] = counts
    chk.cov["timing_s"] = {"translate": round(t1 - t0, 1), "make": round(t2 - t1, 1), "audit": round(t3 - t2, 1),
                           "harness_build": round(t4 - t3, 1), "twin_runs": round(t5 - t4, 1),
                           "model_eval": round(t6 - t5, 1)}
    for (c, _s) in case_list[:400:57]:
        chk.sample("%s :: %s -> NEEDS_TRACE=%s traced=%s" % (c["impl"], json.dumps(c["pos"])[:160], c["real_nt"],
                                                             json.dumps(c["direct"])[:120]))
    if tier == "thorough" and made:
        okc, cout = vlib.coqchk(COQ_DIR, LOGICAL, ["GACollect.Props.C16"], timeout=1500)
        chk.obligation("coqchk GACollect.Props.C16", okc, cout[-2000:])


class _locked:
    """Inter-process lock around coq-collect/ and the harness build dirs (C01/C02/C05 use this check as a premise)."""
    def __enter__(self):
        import fcntl
        os.makedirs(B16, exist_ok=True)
        self.fh = open(os.path.join(B16, "c16.lock"), "w")
        fcntl.flock(self.fh, fcntl.LOCK_EX)
        return self

    def __exit__(self, *a):
        import fcntl
        fcntl.flock(self.fh, fcntl.LOCK_UN)
        self.fh.close()
        return False


def _premise_path(tier, seed):
    key = vlib.repo_hash(extra=[vlib.tree_hash([os.path.join(HARN_DIR, "src"), os.path.join(HARN_DIR, "Cargo.toml.in")] + [os.path.join(COQ_DIR, f) for f in ("ModelDSL.v", "ModelTables.v", "Proofs.v", "TableProofs.v", "ExampleValues.v", "Props/C16.v")] + [
                                                 os.path.join(vlib.VERIF, "translator-collect", "src"), os.path.abspath(__file__)])])
    return os.path.join(B16, "premise-%s-%s-%s.json" % (key[:20], tier, seed))


def _summary(chk):
    return {"obligations": [(n, ok, (d or "")[:1500]) for (n, ok, d) in chk.obligs],
            "correspondence": [(n, ok, (d or "")[:1500]) for (n, ok, d) in chk.corrs],
            "violations": [{"desc": v["desc"], "replay": v["replay"], "key": v.get("key")} for v in chk.viols],
            "evaluations": chk.evaluations}


def run(chk, tier, seed):
    with _locked():
        _run(chk, tier, seed)
        try:
            with open(_premise_path(tier, seed), "w") as f:
                json.dump(_summary(chk), f)
        except OSError:
            pass


def premise(tier, seed):
    """The outcome of this check on the current tree, for the collector-core properties whose theorems ASSUME that
    tracing reports exactly the pointers a value holds (C01, C02, C05).  Cached by content of /repo and of this engine."""
    pp = _premise_path("quick", seed)
    with _locked():
        if os.path.exists(pp):
            return json.load(open(pp))
        scratch = vlib.Check("C16", "quick", seed)
        _run(scratch, "quick", seed)
        res = _summary(scratch)
        for f in os.listdir(B16):
            if f.startswith("premise-") and os.path.getmtime(os.path.join(B16, f)) < time.time() - 3600:
                os.remove(os.path.join(B16, f))
        with open(pp, "w") as f:
            json.dump(res, f)
        return res


def replay(path):
    txt = open(path).read()
    print(txt)
    m = re.search(r"replay: impl=(\S+) features=(\S+) seed=(\d+)", txt)
    if not m:
        return 0
    iid, setname, seed = m.group(1), m.group(2), int(m.group(3))
    sets = [s for s in feature_sets("thorough") if s[0] == setname] or [("all", ["std"] + OPT_FEATURES)]
    res = build_harness(sets)
    okb, binp, blog = res[sets[0][0]]
    if not okb:
        print("harness does not build against the current tree:\n" + blog)
        return 1
    bad = 0
    print("---- re-running the recording tracer for %s on the current tree (%s) ----" % (iid, vlib.REPO))
    _rc, recs, _raw = run_harness(binp, "twin", seed, counts_for("quick"), only=("dyn" if "dyn:" in iid else iid))
    for c in [r for r in recs if r.get("kind") in ("case", "dyncase")]:
        for (desc, _p) in (dyn_oracle(c) if c["kind"] == "dyncase" else oracle(c)):
            bad += 1
            if bad <= 3:
                print(describe_case(c, setname))
                print("OBSERVED: " + desc)
                print("REQUIRED: every inserted pointer is reported with its strength; NEEDS_TRACE true whenever a parameter's is\n")
    _rc, recs, _raw = run_harness(binp, "survive", seed, only=iid)
    for r in [r for r in recs if r.get("kind") == "survive"]:
        if r["problems"]:
            bad += 1
            print("survival %s: %s" % (r["impl"], r["problems"]))
    print("violations observed on the current tree: %d" % bad)
    return 1 if bad else 0
