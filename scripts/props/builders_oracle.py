"""Builder scenarios (the C18 engine's harness) as an implementation-side oracle for the properties whose text
also speaks about slice builders: C03 (nothing is released or destructed while a callback runs) and C11 (a panicking
element constructor / abandoned builder destructs exactly the initialised parts). Only the model-independent VIOL
lines of /verif/harness-layout/src/bin/builders.rs are used; the builder theorems themselves belong to C18."""
import os, sys
sys.path.insert(0, os.path.join(os.path.dirname(os.path.abspath(__file__)), "..", "..", "harness-layout"))
import vlib
import layout_common as lc

# which VIOL messages speak for which property
PATTERNS = {
    "C03": ("freed or destructed during construction", "was destructed during this scenario", "traced while its builder",
            "destructed twice", "not inside a live allocator block"),
    "C11": ("abandoned builder", "destructed twice", "after a panic", "harness process died", "leaked"),
}


def run(chk, pid, tier, seed):
    okb, outb, bindir, _, _ = lc.build(release=False, thorough_grid=False)
    chk.correspondence("builder harness (C18 engine) builds against %s" % vlib.REPO, okb, outb[-3000:])
    if not okb:
        return
    rc, out, dt = lc.run_bin(bindir, "builders", ["--tier", "quick", "--seed", seed], timeout=900)
    finished = rc == 0 and "\nEND" in out
    n_b = sum(1 for l in out.split("\n") if l.startswith("B "))
    if not finished:
        last_b = [l for l in out.split("\n") if l.startswith("B ")][-1:]
        chk.violation("%s: the builder harness died (rc=%s) inside gc-arena (last completed scenario: %s)" % (pid, rc, last_b),
                      "seed=%d repo=%s\nlast lines:\n%s" % (seed, vlib.REPO, out[-3000:]))
        chk.correspondence("builder scenarios ran to completion", False, out[-1500:])
        return
    pats = PATTERNS[pid]
    mine = [l for l in out.split("\n") if l.startswith("VIOL ") and any(p in l for p in pats)]
    other = [l for l in out.split("\n") if l.startswith("VIOL ") and l not in mine]
    for l in mine[:4]:
        chk.violation("%s builder scenario: %s" % (pid, l[5:]),
                      "harness: /verif/harness-layout builders (debug)\nseed=%d repo=%s\n%s\n(re-run: python3 scripts/check.py %s --tier quick)"
                      % (seed, vlib.REPO, l, pid))
    chk.correspondence("builder scenarios (%d, every kind x length x abandonment / panic index): model-independent oracle "
                       "(initialised parts destructed exactly once, nothing freed or destructed before completion, abandoned => "
                       "arena unchanged)" % n_b, not mine and not other, "%d VIOL lines for %s, %d others (see C18)" % (len(mine), pid, len(other)))
    chk.cov["builder_scenarios"] = n_b
