"""C01: see DESIGN.md section 5. Collector-core property: theorems in coq/Props/C01.v, tie by lock-step."""
from props import core

SETUP_KEY = core.SETUP_KEY
setup = core.setup


def run(chk, tier, seed):
    core.run_core(chk, "C01", tier, seed)


def replay(path):
    return core.replay("C01", path)
