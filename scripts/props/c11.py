"""C11: see DESIGN.md section 5. Collector-core property: theorems in coq/Props/C11.v, tie by lock-step."""
from props import core, builders_oracle

SETUP_KEY = core.SETUP_KEY
setup = core.setup


def run(chk, tier, seed):
    core.run_core(chk, "C11", tier, seed)
    builders_oracle.run(chk, "C11", tier, seed)


def replay(path):
    return core.replay("C11", path)
