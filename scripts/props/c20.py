"""C20: see DESIGN.md section 5. Collector-core property: theorems in coq/Props/C20.v, tie by lock-step,
plus the static no-shared-state theorem over the regenerated item tables (coq-api/Props/C20Static.v)."""
from props import core, static_facts

SETUP_KEY = core.SETUP_KEY
setup = core.setup


def run(chk, tier, seed):
    core.run_core(chk, "C20", tier, seed)
    trusted = list(chk.trusted)
    static_facts.statics_obligations(chk)
    static_facts.brand_obligations(chk)
    chk.trusted = trusted + [t for t in chk.trusted if t not in trusted]


def replay(path):
    if "// probe " in open(path).read():
        from props import c12
        return c12.replay(path)
    return core.replay("C20", path)
