"""C17 — allocation layout integrity.

Proof: /verif/coq-layout (Props/C17.v) — theorems over unbounded N for every size, alignment
exponent, length and metadata layout.  Tie to the source, checked on every run:
  (a) differential test of the model of core::alloc::Layout against the installed std;
  (b) allocator-level correspondence: a grid of sized / slice / str / slice-with-header / custom
      metadata allocations through gc-arena's public API under a tracking global allocator; the
      model must reproduce requested layout, value offset, released layout and rustc's
      size_of_val for every object, and the panic class for rejected requests;
  (c) twin of the flag-bit code cut out of src/gc_ptr.rs, compared with the model's tagged
      pointer functions; masks and alignments regenerated into Gen/TagConsts.v.
Independent of the model, the harness applies the property's oracle to every object (VIOL lines).
"""
import os, random, sys, time

sys.path.insert(0, os.path.join(os.path.dirname(os.path.abspath(__file__)), "..", "..", "harness-layout"))
import vlib
import layout_common as lc

SETUP_KEY = lc.SETUP_KEY


def setup():
    lc.setup()


TRUSTED = [
    "Coq 8.16.1 kernel (coqc; coqchk in the thorough tier); vm_compute for the generated sample tables",
    "extraction (ExtrOcamlBasic only) + OCaml driver coq-layout/Extract/driver.ml: text <-> extracted datatypes only; "
    "cross-checked on every run by re-evaluating a seeded sample of the same cases inside Coq",
    "Rust harness /verif/harness-layout (tracking global allocator with guard zones and minimal alignment, "
    "macro-generated repr(align) type grid, public API only) and this Python driver",
    "slicer of GcHeader/GcVtable/tagged_ptr/GcColor out of src/gc_ptr.rs, src/types.rs (fails closed) and the stubs "
    "for GcPtr/Context in src/bin/tagtwin.rs",
    "rustc/std of the installed toolchain as the reference for core::alloc::Layout, size_of_val, align_of_val",
    "the system allocator honours Layout; addresses fit in usize; the model is instantiated for the platform "
    "constants measured by the harness (usize 64 bit, GcHeader 16/8, GcVtable align 16 on x86_64)",
    "modelled, not verified: provenance/aliasing validity of the unsafe pointer arithmetic (outside every theorem); "
    "address stability across collections is the C01 model's 'objects never move' and is only correspondence-tested here",
]


def _platform_from_twin(out):
    for l in out.split("\n"):
        if l.startswith("PLATFORM "):
            d = lc.kv(l)
            return (int(d["usize_bits"]), int(d["hdr_size"]), lc.log2(d["hdr_align"]), lc.log2(d["vtable_align"]))
    return None


def _report_viols(chk, out, what, seed, tier, limit=6):
    n = 0
    for l in out.split("\n"):
        if l.startswith("VIOL "):
            n += 1
            if n <= limit:
                desc = "C17 %s: %s" % (what, l[5:])
                chk.violation(desc, "harness: %s\nseed=%d tier=%s repo=%s\n%s\n(re-run: python3 scripts/check.py C17 --tier %s with VERIF_SEED=%d)"
                              % (what, seed, tier, vlib.REPO, l, tier, seed), key=None)
    return n


def run(chk, tier, seed):
    rng = random.Random(seed * 7919 + 17)
    thorough = tier == "thorough"
    chk.trusted = TRUSTED
    chk.rule = ("one case = one call of a std Layout function on one input, one Gc allocation of one "
                "(kind, header/element/value layout, metadata layout, length) followed through 3 collection rounds "
                "and its release, or one flag-update history / tagged_ptr call; distinct = distinct input tuples")
    chk.checker_cmd = ("make (coq_makefile, full .vo) in /verif/coq-layout; coqc Props/C17.v with Print Assumptions; "
                       "coqc Gen/TagConsts.v, Gen/C17Sample.v" + ("; coqchk -o -silent" if thorough else ""))

    # ---- 1. proofs ---------------------------------------------------------------------------
    t0 = time.time()
    ok, out = lc.ensure_coq()
    chk.obligation("coq-layout builds (full .vo)", ok, out[-4000:])
    if ok:
        lc.audit(chk, os.path.join("Props", "C17.v"), "C17")
    okm, outm = lc.ensure_model()
    chk.correspondence("model extraction + driver build", okm, outm[-3000:])
    chk.cov["t_proofs_s"] = round(time.time() - t0, 1)
    if not (ok and okm):
        return

    # ---- 2. build the harness against the current tree ------------------------------------------
    t0 = time.time()
    builds = [("debug", False)] + ([("release", True)] if thorough else [])
    bindirs = {}
    slice_problems, consts = [], {}
    for name, rel in builds:
        okb, outb, bindir, slice_problems, consts = lc.build(release=rel, thorough_grid=thorough)
        chk.correspondence("harness builds against %s (%s)" % (vlib.REPO, name), okb, outb[-4000:])
        if okb:
            bindirs[name] = bindir
    chk.cov["t_build_s"] = round(time.time() - t0, 1)
    chk.correspondence("flag-bit code sliced out of src/gc_ptr.rs (fail closed)", not slice_problems,
                       "\n".join(slice_problems))
    if "debug" not in bindirs:
        return

    # ---- 3. twin of the tag code: platform constants, masks, histories ------------------------
    n_tag = 6000 if thorough else 1500
    rc, tw_out, _ = lc.run_bin(bindirs["debug"], "tagtwin", ["--seed", seed, "--n", n_tag], timeout=300)
    plat = _platform_from_twin(tw_out)
    chk.correspondence("tag twin ran to completion", rc == 0 and "\nEND" in tw_out and plat is not None,
                       "rc=%s\n%s" % (rc, tw_out[-1500:]))
    if plat is None:
        return
    chk.cov["platform"] = {"usize_bits": plat[0], "hdr_size": plat[1], "hdr_align_log": plat[2], "vtable_align_log": plat[3]}
    masks = (consts.get("color_mask", 3), consts.get("trace_mask", 4), consts.get("live_mask", 8))
    chk.cov["masks_from_source"] = {"color": masks[0], "needs_trace": masks[1], "live": masks[2],
                                    "vtable_align": consts.get("vtable_align")}
    align_ok = consts.get("vtable_align") == 2 ** plat[3]
    chk.correspondence("repr(align) of GcVtable in the source equals align_of measured by the twin", align_ok,
                       "source: %s, twin: %s" % (consts.get("vtable_align"), 2 ** plat[3]))
    okg, outg = lc.compile_gen("TagConsts.v", lc.tag_consts_file(plat, masks), deps=(os.path.join("Props", "C17.vo"),))
    chk.obligation("Gen/TagConsts.v: gen_plat_ok, gen_masks_ok, gen_tag_bits (constants regenerated from the source)",
                   okg and outg.count("Closed under the global context") == 3, outg[-3000:])
    tag_viols = _report_viols(chk, tw_out, "flag bits (twin of src/gc_ptr.rs)", seed, tier)
    chk.correspondence("flag-bit oracle on the twin: getters read the last value set, vtable recovered",
                       tag_viols == 0, "%d VIOL lines" % tag_viols)
    tag_lines = [l for l in tw_out.split("\n") if l.startswith("T ")]

    plat_hdr = "PLAT %d %d %d %d" % plat
    masks_hdr = "MASKS %d %d %d" % masks
    okr, bad, flags, raw = lc.run_model([plat_hdr, masks_hdr], tag_lines)
    chk.correspondence("model reproduces the twin's tagged words and getters (%d cases)" % len(tag_lines),
                       okr and not bad and flags.get("PLATOK") and flags.get("MASKSOK"),
                       "flags=%s\n" % flags + "\n".join("%s :: %s" % (tag_lines[i], m) for i, m in bad[:10]) + raw[-500:])
    if bad and not tag_viols:
        # the model (with the masks found in the source) disagrees although every getter reads back what
        # was set: not a violation of the property; reported as a broken correspondence
        chk.notes.append("tag model disagreement without oracle failure: %s" % tag_lines[bad[0][0]])

    # ---- 4. differential test of the std Layout model -------------------------------------------
    n_diff = 300000 if thorough else 100000
    rc, d_out, _ = lc.run_bin(bindirs["debug"], "difftest", ["--seed", seed, "--n", n_diff], timeout=300)
    diff_lines = [l for l in d_out.split("\n") if l.startswith("D ")]
    okr, dbad, _, raw = lc.run_model([plat_hdr], diff_lines)
    chk.correspondence("model of core::alloc::Layout agrees with std on %d random + boundary calls" % len(diff_lines),
                       rc == 0 and okr and not dbad and len(diff_lines) == n_diff,
                       "\n".join("%s :: %s" % (diff_lines[i], m) for i, m in dbad[:10]) + raw[-300:])
    hist = {}
    for l in diff_lines:
        p = l.split()
        key = p[1] + ("/err" if (l.endswith(" N") or (p[1] == "V" and p[-1] == "0")) else "/ok")
        hist[key] = hist.get(key, 0) + 1
    chk.cov["difftest_histogram"] = hist

    # ---- 5. allocation grid ---------------------------------------------------------------------
    all_l_lines, total_viols, crashed = [], 0, False
    for name, bindir in bindirs.items():
        t0 = time.time()
        rc, l_out, dt = lc.run_bin(bindir, "layout", ["--tier", tier, "--seed", seed, "--hdr-bytes", plat[1]],
                                   timeout=1500 if thorough else 600)
        chk.cov["t_layout_%s_s" % name] = round(dt, 1)
        finished = rc == 0 and "\nEND" in l_out
        if not finished:
            crashed = True
            lcse = lc.last_case(l_out) or "<before the first case>"
            chk.correspondence("allocation harness (%s) ran to completion" % name, False,
                               "rc=%s last %s\n%s" % (rc, lcse, l_out[-1500:]))
            chk.violation("C17: the harness process died (rc=%s) while running %s — memory corruption or an abort inside "
                          "gc-arena on a valid request" % (rc, lcse),
                          "build=%s seed=%d tier=%s repo=%s\nlast lines:\n%s" % (name, seed, tier, vlib.REPO, l_out[-3000:]))
        else:
            chk.correspondence("allocation harness (%s) ran to completion" % name, True, "")
        hp = [l for l in l_out.split("\n") if l.startswith("PLATFORM ")]
        if hp:
            d = lc.kv(hp[0])
            chk.correspondence("platform constants of the harness build (%s) match the model instance" % name,
                               int(d["usize_bits"]) == plat[0] and int(d["usize_size"]) * 8 == plat[0]
                               and int(d["gc_ptr_size"]) * 8 == plat[0] and d["hooks"] == "true", hp[0])
            chk.cov["debug_assertions_%s" % name] = d.get("debug_assertions")
        nv = _report_viols(chk, l_out, "allocation grid (%s build)" % name, seed, tier)
        total_viols += nv
        chk.correspondence("property oracle on every allocated object (%s): aligned, inside block, header room, pattern "
                           "intact, address stable, lengths round-trip, dealloc layout == alloc layout, no double free"
                           % name, nv == 0, "%d VIOL lines" % nv)
        l_lines = [l for l in l_out.split("\n") if l.startswith("L ")]
        okr, lbad, _, raw = lc.run_model([plat_hdr], l_lines)
        chk.correspondence("model reproduces alloc layout, value offset, dealloc layout, size_of_val and panic class "
                           "of %d allocations (%s)" % (len(l_lines), name),
                           okr and not lbad and len(l_lines) > 1000,
                           "\n".join("%s :: %s" % (l_lines[i], m) for i, m in lbad[:10]) + raw[-300:])
        if lbad and nv == 0 and not crashed:
            # search harder for a concrete failing input before giving up: bigger lengths, other seeds
            for extra_seed in (seed + 1, seed + 2):
                rc2, o2, _ = lc.run_bin(bindir, "layout", ["--tier", "thorough", "--seed", extra_seed, "--hdr-bytes", plat[1]],
                                        timeout=900)
                if rc2 != 0 or "\nEND" not in o2:
                    chk.violation("C17: harness died during the failing-input search (rc=%s) at %s" % (rc2, lc.last_case(o2)),
                                  "seed=%d\n%s" % (extra_seed, o2[-3000:]))
                    break
                if _report_viols(chk, o2, "failing-input search (%s build)" % name, extra_seed, "thorough"):
                    break
        if name == "debug":
            all_l_lines = l_lines

    kinds = {}
    distinct = set()
    for l in all_l_lines:
        p = l.split()
        k = p[4]
        kinds[k] = kinds.get(k, 0) + 1
        distinct.add(l.split(" O ")[0].split(" P ")[0])
    chk.cov["allocation_cases_by_kind"] = {"sized(Z)": kinds.get("Z", 0), "slice(S)": kinds.get("S", 0),
                                           "str(T)": kinds.get("T", 0), "slice_with_header(W)": kinds.get("W", 0)}
    chk.cov["rejected_requests"] = sum(1 for l in all_l_lines if " P " in l)
    chk.cov["custom_metadata_cases"] = sum(1 for l in all_l_lines if l.startswith("L 1 "))
    chk.cov["traces_validated_against_impl"] = len(all_l_lines)

    # ---- 6. a sample of all case sorts re-checked inside Coq ----------------------------------------
    k = 1500 if thorough else 500
    smp = lc.sample(diff_lines, k, rng) + lc.sample(all_l_lines, k, rng) + lc.sample(tag_lines, k // 2, rng)
    # always include what the extracted model rejected, so the kernel has the last word
    smp += [diff_lines[i] for i, _ in dbad[:20]] + [tag_lines[i] for i, _ in bad[:20]]
    text, thms = lc.coq_sample_file("C17", plat, masks, [l for l in smp if " X" not in l[-3:]])
    oks, outs = lc.compile_gen("C17Sample.v", text, timeout=900)
    chk.obligation("Gen/C17Sample.v: %d sampled cases re-evaluated by vm_compute agree (cross-check of the extraction)" % len(smp),
                   oks and outs.count("Closed under the global context") == len(thms), outs[-3000:])

    chk.evaluations = len(diff_lines) + len(tag_lines) + sum(
        1 for _ in all_l_lines) * len(bindirs)
    chk.distinct = len(distinct) + len(set(diff_lines)) + len(set(tag_lines))
    for l in lc.sample(all_l_lines, 6, rng) + lc.sample(diff_lines, 3, rng) + lc.sample(tag_lines, 2, rng):
        chk.sample(l)

    # ---- 7. thorough: coqchk ---------------------------------------------------------------------
    if thorough:
        okc, outc = vlib.coqchk(lc.COQ, lc.LOGICAL, ["GALayout.Props.C17"], timeout=1500)
        chk.obligation("coqchk GALayout.Props.C17", okc, outc[-3000:])


def replay(path):
    print(open(path).read())
    print("--- re-running the C17 check on %s (quick tier) ---" % vlib.REPO)
    chk = vlib.Check("C17", "quick", int(os.environ.get("VERIF_SEED", "1") or 1))
    run(chk, "quick", chk.seed)
    for v in chk.viols:
        print("STILL FAILS:", v["desc"])
    if not chk.viols:
        print("no oracle failure on the current tree")
    return 1 if chk.viols else 0
