"""C15 -- derive(Collect) traces every field and rejects unsound uses.

Proof:      /verif/coq-derive (ModelDerive.v = hand model of collect_derive, DeriveProofs.v, Props/C15.v)
Ties (all re-checked on every run, against vlib.REPO's current working tree):
  (c) translator-derive -> Gen/GenDeriveFacts.v, theorem FactsCheck.derive_facts_agree
  (a') token level: the real `collect_derive` source is compiled into harness-derive/expander and run
       on seeded positive AND negative shapes; its normalised output must equal the model's
  (a)  run time: a seeded corpus of types under the real #[derive(Collect)] is compiled, every variant
       is built with pointer tokens at every field position and traced with a recording `Trace`;
       NEEDS_TRACE is read for tracing / non-tracing instantiations; compared with the model and,
       independently, with the property statement (oracles)
  (b)  compile probes with positive twins (/verif/probes/c15)
Failure protocol: see `_decide` below.
"""
import concurrent.futures, hashlib, json, os, re, shutil, sys, time

import vlib

VERIF = vlib.VERIF
CQ = os.path.join(VERIF, "coq-derive")
HD = os.path.join(VERIF, "harness-derive")
TR = os.path.join(VERIF, "translator-derive")
PROBES = os.path.join(VERIF, "probes", "c15")
WORK = os.path.join(vlib.BUILD, "c15")
LOGICAL = "GADerive"
SETUP_KEY = "c15"

sys.path.insert(0, HD)
import shapegen as sg  # noqa: E402

TIERS = {
    "quick": {"corpus": 400, "token": 600, "seeds": 1, "directed": 120},
    "thorough": {"corpus": 1000, "token": 3000, "seeds": 3, "directed": 300},
}

PROPERTY_THEOREMS = ["C15_traces_all", "C15_traces_all_order", "C15_traces_all_positions", "C15_trace_arms_shape",
                     "C15_needs_trace", "C15_rejects_in_macro", "C15_spec_must_reject_sound", "C15_emits_guards",
                     "C15_gc_lifetime_choice"]


# --------------------------------------------------------------------------------------------
# small helpers
# --------------------------------------------------------------------------------------------
def _sha(*parts):
    h = hashlib.sha256()
    for p in parts:
        h.update(str(p).encode()); h.update(b"\0")
    return h.hexdigest()[:16]


def _write_if_changed(path, text):
    try:
        if open(path).read() == text:
            return False
    except OSError:
        pass
    os.makedirs(os.path.dirname(path), exist_ok=True)
    with open(path, "w") as f:
        f.write(text)
    return True


def _stage(name, srcdir, files=("Cargo.toml", "build.rs", "src/main.rs")):
    """Copy a crate of ours into WORK/stage/<name> (content-compared, so cargo stays incremental) and
    put /repo's Cargo.lock next to its manifest."""
    dst = os.path.join(WORK, "stage", name)
    for rel in files:
        p = os.path.join(srcdir, rel)
        if os.path.exists(p):
            _write_if_changed(os.path.join(dst, rel), open(p).read())
    lock = os.path.join(dst, "Cargo.lock")
    src_lock = open(os.path.join(vlib.REPO, "Cargo.lock")).read()
    if _write_if_changed(os.path.join(dst, ".lock-source"), src_lock) or not os.path.exists(lock):
        with open(lock, "w") as f:          # cargo prunes it to what the crate needs on first build
            f.write(src_lock)
    return dst


def _cargo(crate_dir, target_dir, timeout=900, json_msgs=False):
    cmd = ["cargo", "build", "--offline", "--target-dir", target_dir]
    if json_msgs:
        cmd += ["--message-format=json-render-diagnostics"]
    env = {"RUSTFLAGS": "", "VERIF_REPO": vlib.REPO, "CARGO_TERM_COLOR": "never"}
    rc, out = vlib.run(cmd, cwd=crate_dir, timeout=timeout, env=env)
    return rc == 0, out


def _prune(dirpath, keep):
    try:
        ents = sorted((os.path.getmtime(os.path.join(dirpath, d)), d) for d in os.listdir(dirpath))
    except OSError:
        return
    for _, d in ents[:-keep] if len(ents) > keep else []:
        shutil.rmtree(os.path.join(dirpath, d), ignore_errors=True)


# --------------------------------------------------------------------------------------------
# tools: expander + translator
# --------------------------------------------------------------------------------------------
def build_tools():
    tdir = os.path.join(WORK, "target-tools")
    res = {}
    for name, src in (("expander", os.path.join(HD, "expander")), ("translator", TR)):
        st = _stage(name, src)
        ok, out = _cargo(st, tdir)
        res[name] = (ok, out, os.path.join(tdir, "debug", "c15-" + name))
    return res


def run_translator(tools):
    """Regenerate Gen/GenDeriveFacts.v; on tool failure write a stub whose checks all fail."""
    ok, out, binp = tools["translator"]
    gen = os.path.join(CQ, "Gen", "GenDeriveFacts.v")
    text, detail = None, ""
    if ok:
        rc, o = vlib.run([binp, os.path.join(vlib.REPO, "derive", "src", "lib.rs")], timeout=60)
        if rc == 0 and "gen_panic_count" in o:
            text = o
        else:
            detail = "translator failed: " + o[-1500:]
    else:
        detail = "translator does not build: " + out[-1500:]
    if text is None:
        u = '"Unknown:translator"'
        text = ("(* GENERATED stub: the translator could not run *)\nFrom Coq Require Import List String.\nImport ListNotations.\n"
                "Local Open Scope string_scope.\n"
                "Definition gen_entry_fn : string := %s.\nDefinition gen_helper_attrs : list string := [].\n"
                "Definition gen_attr_idents : list string := [].\nDefinition gen_mode_map : list (string * string) := [].\n"
                "Definition gen_option_idents : list string := [].\nDefinition gen_field_attr_idents : list string := [].\n"
                "Definition gen_filter_flag : string := %s.\nDefinition gen_filter_flag_set_under : list string := [].\n"
                "Definition gen_filter_arms : list (string * string) := [].\nDefinition gen_needs_trace_seed : string := %s.\n"
                "Definition gen_needs_trace_op : string := %s.\nDefinition gen_needs_trace_atom : string := %s.\n"
                "Definition gen_needs_trace_inits : list string := [].\nDefinition gen_each_closure : list string := [].\n"
                "Definition gen_trace_fn_bodies : list string := [].\n"
                "Definition gen_mode_ifs : list (string * list string * list string) := [].\n"
                "Definition gen_where_pred_macros : list string := [].\n"
                "Definition gen_add_bounds_ifs : list (string * string * string) := [].\n"
                "Definition gen_add_bounds_calls : list string := [].\nDefinition gen_panic_count : nat := 0.\n") % (u, u, u, u, u)
    _write_if_changed(gen, text)
    return detail


# --------------------------------------------------------------------------------------------
# Coq
# --------------------------------------------------------------------------------------------
def coq_build_and_audit(chk):
    """make + forbidden scan + Print Assumptions for Props/C15.v and FactsCheck.v."""
    ok, out = vlib.coq_make(CQ, ["ModelDerive.vo", "ModelShow.vo", "DeriveProofs.vo", "Props/C15.vo"], timeout=900)
    hits = vlib.coq_forbidden_scan(CQ)
    chk.obligation("coq-derive builds (ModelDerive, ModelShow, DeriveProofs, Props/C15)", ok, out[-3000:])
    chk.obligation("no forbidden vernacular in coq-derive", not hits, "\n".join(hits))
    if not ok:
        for t in PROPERTY_THEOREMS:
            chk.obligation("Props/C15.v: " + t, False, "project does not build")
        return False
    pok, res, raw = vlib.coq_print_assumptions(CQ, LOGICAL, "Props/C15.v")
    src = vlib.strip_coq_comments(open(os.path.join(CQ, "Props", "C15.v")).read())
    for t in PROPERTY_THEOREMS:
        present = re.search(r"Theorem\s+%s\s*:" % re.escape(t), src) is not None
        ax = res.get(t, ["<missing>"]) if pok else ["<Props/C15.v does not compile>"]
        bad = [a for a in ax if a not in vlib.ALLOWED_AXIOMS]
        chk.obligation("Props/C15.v: " + t, pok and present and not bad,
                       "closed under the global context" if not ax else "axioms: %s" % ax)
        if ax and not bad:
            chk.assumptions.append("%s depends on %s" % (t, ax))
    n_ex = len(re.findall(r"(?m)^Example\s+", src))
    chk.cov["examples_in_props"] = n_ex
    return pok


def coq_facts(chk, translator_detail):
    ok, out = vlib.coq_make(CQ, ["Gen/GenDeriveFacts.vo"], timeout=300)
    pok, res, raw = (False, {}, out)
    if ok:
        pok, res, raw = vlib.coq_print_assumptions(CQ, LOGICAL, "FactsCheck.v")
    report = dict(re.findall(r'\(\s*"(\w+)",\s*(true|false)\)', raw.replace("\n", " ")))
    closed = pok and not [a for a in res.get("derive_facts_agree", ["<missing>"]) if a not in vlib.ALLOWED_AXIOMS]
    failing = [k for k, v in report.items() if v != "true"]
    chk.cov["source_facts"] = report
    good = ok and pok and closed and not failing and len(report) >= 9
    chk.obligation("FactsCheck.derive_facts_agree (facts regenerated from derive/src/lib.rs agree with the model)", good,
                   (translator_detail + " " if translator_detail else "") +
                   ("failing fact groups: %s\n" % failing if failing else "") + ("" if good else raw[-2500:]))
    return good, failing


def model_eval(cases, tag):
    """cases: list of (id, shape, rhos). Returns {id: [lines]} from the Gallina model (vm_compute)."""
    if not cases:
        return {}, ""
    model_hash = vlib.tree_hash([os.path.join(CQ, "ModelDerive.v"), os.path.join(CQ, "ModelShow.v")])
    chunks = [cases[i:i + 250] for i in range(0, len(cases), 250)]
    cache_dir = os.path.join(WORK, "coq-cache")
    os.makedirs(cache_dir, exist_ok=True)
    _prune(cache_dir, 400)

    def one(args):
        k, chunk = args
        body = ";\n".join("  {| c_id := %d; c_shape := %s; c_rhos := %s |}" % (
            cid, sg.to_coq(sh), sg.clist(sg.clist(map(sg.cstr, r)) for r in rhos)) for cid, sh, rhos in chunk)
        text = ("From Coq Require Import List String.\nFrom GADerive Require Import ModelDerive ModelShow.\n"
                "Import ListNotations.\nLocal Open Scope string_scope.\nDefinition cases : list case := [\n%s\n].\n"
                "Eval vm_compute in (show_cases cases).\n" % body)
        key = _sha(model_hash, text)
        cp = os.path.join(cache_dir, key + ".txt")
        if os.path.exists(cp):
            return open(cp).read(), ""
        name = "CasesC15_%s_%d" % (tag, k)
        path = os.path.join(CQ, "Gen", name + ".v")
        with open(path, "w") as f:
            f.write(text)
        rc, out = vlib.run(["coqc", "-q", "-Q", ".", LOGICAL, "Gen/%s.v" % name], cwd=CQ, timeout=900)
        for ext in (".vo", ".glob", ".vok", ".vos"):
            try:
                os.remove(os.path.join(CQ, "Gen", name + ext))
            except OSError:
                pass
        try:
            os.remove(os.path.join(CQ, "Gen", "." + name + ".aux"))
        except OSError:
            pass
        if rc != 0:
            return None, out[-2000:]
        os.remove(path)
        with open(cp, "w") as f:
            f.write(out)
        return out, ""

    res, err = {}, ""
    with concurrent.futures.ThreadPoolExecutor(max_workers=5) as ex:
        for out, e in ex.map(one, list(enumerate(chunks))):
            if out is None:
                err = e
                continue
            strs = [s.replace('""', '"').replace("\n", " ") for s in re.findall(r'"((?:[^"]|"")*)"', out)]
            res.update(_split_cases(strs))
    return res, err


def _split_cases(lines):
    out, cur = {}, None
    for l in lines:
        if l.startswith("CASE "):
            cur = int(l.split()[1]); out[cur] = []
        elif l == "END":
            cur = None
        elif cur is not None:
            out[cur].append(l)
    return out


# --------------------------------------------------------------------------------------------
# corpus (run-time correspondence)
# --------------------------------------------------------------------------------------------
CORPUS_TOML = """[package]
name = "c15-corpus"
version = "0.0.0"
edition = "2021"

[workspace]

[dependencies]
gc-arena = { path = "%s" }

[profile.dev]
debug = false
opt-level = 0
incremental = false
"""


def build_corpus(seed, n, bias=None):
    """Generate + compile (cached by repo hash, seed, size, generator hash) the corpus program.
    Types that do not compile under the current derive are quarantined (dropped together with the
    types that mention them) and the rest is recompiled, so that one rejected type does not hide
    what the derive does to the others.  Returns dict(dir, corpus, exp, ok, out, excluded, ...)."""
    gen_hash = vlib.tree_hash([os.path.join(HD, "shapegen.py")])
    key = _sha(vlib.repo_hash(), vlib.REPO, seed, n, gen_hash, json.dumps(bias, sort_keys=True))
    d = os.path.join(WORK, "corpus", key)
    corpus = sg.Corpus(seed, n, bias=bias)
    info = {"dir": d, "corpus": corpus, "ok": True, "out": "", "cached": False, "excluded": [], "excluded_errors": ""}
    done = os.path.join(d, "done.json")
    if os.path.exists(done):
        meta = json.load(open(done))
        info["cached"] = True
        info["excluded"] = meta.get("excluded", [])
        info["excluded_errors"] = meta.get("excluded_errors", "")
        info["src"], info["exp"], _ = sg.render_corpus(corpus, info["excluded"])
        os.utime(d, None)
        return info
    _prune(os.path.join(WORK, "corpus"), 10)
    os.makedirs(os.path.join(d, "src"), exist_ok=True)
    _write_if_changed(os.path.join(d, "Cargo.toml"), CORPUS_TOML % vlib.REPO)
    shutil.copy(os.path.join(vlib.REPO, "Cargo.lock"), os.path.join(d, "Cargo.lock"))
    tdir = os.path.join(WORK, "target-corpus")
    excluded, first_errors = set(), ""
    ok, out = False, ""
    for rnd in range(6):
        src, exp, line_map = sg.render_corpus(corpus, excluded)
        _write_if_changed(os.path.join(d, "src", "main.rs"), src)
        ok, out = _cargo(d, tdir, json_msgs=True, timeout=1200)
        if ok:
            break
        text = "\n".join(l for l in out.split("\n") if not l.startswith("{"))
        if not first_errors:
            first_errors = text[:200] + "\n...\n" + text[-3500:]
        bad = set()
        for ln in re.findall(r"--> src/main\.rs:(\d+):", text):
            ln = int(ln)
            for a, b, ti in line_map:
                if a <= ln <= b:
                    bad.add(ti)
        if not bad or len(excluded | bad) >= len(corpus.types):
            break
        excluded = sg.corpus_dependents(corpus, excluded | bad)
    info["src"], info["exp"] = src, exp
    info["excluded"] = sorted(excluded)
    info["excluded_errors"] = first_errors if excluded else ""
    if not ok:
        info["ok"] = False
        info["out"] = first_errors or out[-4000:]
        shutil.rmtree(d, ignore_errors=True)
        return info
    deps = os.path.join(d, "deps")
    os.makedirs(deps, exist_ok=True)
    rlib = None
    for l in out.split("\n"):
        if not l.startswith("{"):
            continue
        try:
            m = json.loads(l)
        except ValueError:
            continue
        if m.get("reason") != "compiler-artifact":
            continue
        nm = m.get("target", {}).get("name", "")
        for f in m.get("filenames", []):
            if nm in ("gc_arena", "gc-arena") and f.endswith(".rlib"):
                shutil.copy(f, deps); rlib = os.path.join(deps, os.path.basename(f))
            elif nm in ("gc_arena_derive", "gc-arena-derive") and f.endswith(".so"):
                shutil.copy(f, deps)
        if nm == "c15-corpus" and m.get("executable"):
            shutil.copy(m["executable"], os.path.join(d, "corpus-bin"))
    if rlib is None or not os.path.exists(os.path.join(d, "corpus-bin")):
        info["ok"] = False
        info["out"] = "cargo succeeded but artifacts were not found"
        shutil.rmtree(d, ignore_errors=True)
        return info
    with open(done, "w") as f:
        json.dump({"rlib": rlib, "repo": vlib.REPO, "seed": seed, "n": n, "excluded": info["excluded"],
                   "excluded_errors": info["excluded_errors"]}, f)
    return info


def run_corpus(info):
    rc, out = vlib.run([os.path.join(info["dir"], "corpus-bin")], timeout=300)
    obs = {"N": {}, "A": {}, "R": {}}
    done = False
    for l in out.split("\n"):
        p = l.split()
        if not p:
            continue
        if p[0] == "N":
            obs["N"][(int(p[1]), int(p[2]))] = p[3] == "1"
        elif p[0] == "A":
            obs["A"][(int(p[1]), int(p[2]), int(p[3]), int(p[4]))] = p[5] == "1"
        elif p[0] == "R":
            def seq(s):
                s = s.split("=", 1)[1]
                return [(x[0], int(x[1:])) for x in s.split(",") if x]
            obs["R"][(int(p[1]), int(p[2]), int(p[3]), int(p[4]))] = (seq(p[5]), seq(p[6]))
        elif p[0] == "DONE":
            done = True
    return rc == 0 and done, obs, out[-1500:]


def _collapse(xs):
    out = []
    for x in xs:
        if not out or out[-1] != x:
            out.append(x)
    return out


def check_runtime(info, obs, model, id_base):
    """Compare the observations with (1) the property statement (oracles, model-independent) and
    (2) the model's prediction. Returns dict(violations=[...], mismatches=[...], stats)."""
    corpus, exp = info["corpus"], info["exp"]
    viols, mism = [], []
    st = {"types": len([x for x in exp if x is not None]), "instantiations": 0, "values_traced": 0, "pointers_placed": 0,
          "needs_trace_true": 0, "needs_trace_false": 0, "field_positions_with_pointer": 0}
    pos_seen = set()
    for ti, e in enumerate(corpus.types):
        if exp[ti] is None:
            continue                      # quarantined: reported separately
        sh = e["shape"]
        vs = sg.variants_of(sh)
        ml = model.get(id_base + ti)
        m_arms, m_nteval, m_class = None, None, None
        if ml is not None:
            m_class = ml[0]
            arms = [l for l in ml if l.startswith("arm ")]
            if any(l == "notrace" for l in ml):
                m_arms = [[] for _ in vs]
            elif arms:
                m_arms = [[int(x) for x in l.split("traced=")[1].split(",") if x] for l in arms]
            nt = [l for l in ml if l.startswith("nteval")]
            if nt:
                m_nteval = [c == "1" for c in nt[0].split()[1:]]
        if ml is None or m_class != "class ok":
            mism.append({"type": ti, "what": "model does not accept a corpus shape", "model": ml})
            continue
        rust_def = sg.to_rust(sh)
        for ii, ie in enumerate(exp[ti]["insts"]):
            st["instantiations"] += 1
            nt = obs["N"].get((ti, ii))
            atoms = {k: obs["A"].get((ti, ii) + tuple(int(x) for x in k.split("."))) for k in ie["atoms"]}
            if nt is None or any(v is None for v in atoms.values()):
                mism.append({"type": ti, "inst": ii, "what": "missing NEEDS_TRACE output from the harness"})
                continue
            st["needs_trace_true" if nt else "needs_trace_false"] += 1
            want = any(atoms.values())
            if nt != want:
                viols.append({"key": "needs_trace", "desc": "NEEDS_TRACE of %s is %s but the constants of its traced field types say %s" % (
                    ie["self_ty"], nt, want),
                    "replay": "%s\n// instantiation: %s\n// <%s as Collect>::NEEDS_TRACE = %s\n// field constants (variant.field = NEEDS_TRACE of that field type): %s\n" % (
                        rust_def, ie["self_ty"], ie["self_ty"], nt, json.dumps(atoms, sort_keys=True))})
            if m_nteval is not None and (ii >= len(m_nteval) or m_nteval[ii] != nt):
                mism.append({"type": ti, "inst": ii, "what": "NEEDS_TRACE: model %s, implementation %s" % (
                    m_nteval[ii] if ii < len(m_nteval) else None, nt), "def": rust_def})
            for run in ie["runs"]:
                vi = run["var"]
                got = obs["R"].get((ti, ii, vi, run["run"]))
                if got is None:
                    mism.append({"type": ti, "inst": ii, "what": "missing trace output from the harness"}); continue
                direct, gated = got
                st["values_traced"] += 1
                st["pointers_placed"] += len(run["tokens"])
                where = run["where"]                                      # id -> [kind, (variant, field)]
                for i, (k, tag) in where.items():
                    pos_seen.add((ti, vi, tag[1]))
                placed = [(where[i][0], i) for i in run["tokens"]]
                for label, seq in (("Collect::trace (derived body)", direct), ("Trace::trace (NEEDS_TRACE-gated, what the collector does)", gated)):
                    missing = [p for p in placed if p not in seq]
                    if missing:
                        fields = sorted(set(where[i][1][1] for _, i in missing))
                        all_of_field = {f: all(p not in seq for p in placed if where[p[1]][1][1] == f) for f in fields}
                        viols.append({"key": "missed_pointer",
                                      "desc": "derived trace of %s variant %s does not report %d pointer(s) held in non-require_static field(s) %s via %s%s" % (
                                          sh["name"], vs[vi]["name"], len(missing), fields, label,
                                          "" if all(all_of_field.values()) else " (only part of the field's pointers are missing: a provided container impl may be at fault)"),
                                      "replay": "%s\n// value (t.gc(i)/t.weak(i) allocate pointer token i):\nlet v: %s = %s;\n// token placement (id -> [kind, [variant, field]]): %s\n// reported by %s: %s\n// missing: %s\n" % (
                                          rust_def, ie["self_ty"], run["expr"], json.dumps(where, sort_keys=True), label, seq, missing)})
                        break
                extra = [p for p in direct if p not in placed]
                if extra or len(set(direct)) != len(direct):
                    mism.append({"type": ti, "inst": ii, "what": "trace reported unknown or duplicate pointers %s" % extra, "def": rust_def})
                # model: field-level order
                if m_arms is not None and vi < len(m_arms):
                    fields_with_ptr = []
                    for i in run["tokens"]:
                        f = where[i][1][1]
                        if f not in fields_with_ptr:
                            fields_with_ptr.append(f)
                    want_fields = [f for f in m_arms[vi] if f in fields_with_ptr]
                    got_fields = _collapse([where[i][1][1] if i in where else -1 for _, i in direct])
                    if want_fields != got_fields or set(fields_with_ptr) - set(m_arms[vi]):
                        mism.append({"type": ti, "inst": ii, "variant": vi, "def": rust_def, "value": run["expr"],
                                     "what": "trace order by field: model %s, implementation %s" % (want_fields, got_fields)})
                    elif [i for _, i in direct] != run["tokens"]:
                        mism.append({"type": ti, "inst": ii, "variant": vi, "def": rust_def, "value": run["expr"], "minor": True,
                                     "what": "pointer order inside a field differs from declaration order (provided container impls): expected %s got %s" % (
                                         run["tokens"], [i for _, i in direct])})
    st["field_positions_with_pointer"] = len(pos_seen)
    return {"violations": viols, "mismatches": mism, "stats": st}


# --------------------------------------------------------------------------------------------
# token-level correspondence
# --------------------------------------------------------------------------------------------
LENIENT_PREFIX = ("errs",)


def run_expander(tools, cases, tag):
    ok, out, binp = tools["expander"]
    if not ok:
        return None, "expander does not build against the current derive/src/lib.rs:\n" + out[-3000:]
    p = os.path.join(WORK, "expander-cases-%s.rs" % tag)
    with open(p, "w") as f:
        for cid, sh in cases:
            f.write("//@@ CASE %d\n%s\n" % (cid, sg.to_rust(sh, derive=False)))
    rc, o = vlib.run([binp, p], timeout=600)
    if rc != 0 or "DONE %d" % len(cases) not in o:
        return None, "expander failed: " + o[-2000:]
    return _split_cases(o.split("\n")), ""


def compare_tokens(cases, model, impl):
    """Returns (mismatches, stats). Error *kinds* are compared leniently (count + class strictly)."""
    mism = []
    from collections import Counter
    classes, kinds = Counter(), Counter()
    for cid, sh in cases:
        a = [l for l in model.get(cid, ["<no model output>"]) if not l.startswith(("nteval", "mustreject"))]
        b = impl.get(cid, ["<no expander output>"])
        classes[b[0]] += 1
        for k in (b[1].split()[1:] if len(b) > 1 else []):
            kinds[k] += 1
        if a == b:
            continue
        strict_a = [l if not l.startswith("errs") else "errs#%d" % (len(l.split()) - 1) for l in a]
        strict_b = [l if not l.startswith("errs") else "errs#%d" % (len(l.split()) - 1) for l in b]
        if strict_a == strict_b:
            mism.append({"id": cid, "minor": True, "what": "error kinds differ (messages reworded?)", "model": a[1], "impl": b[1]})
            continue
        diff = [(x, y) for x, y in zip(a + ["<nothing>"] * 40, b + ["<nothing>"] * 40) if x != y]
        mism.append({"id": cid, "shape": sh, "model": a, "impl": b, "diff": diff[:6],
                     "mustreject": [l for l in model.get(cid, []) if l.startswith("mustreject")]})
    return mism, {"classes": dict(classes), "error_kinds": dict(kinds)}


# --------------------------------------------------------------------------------------------
# probes
# --------------------------------------------------------------------------------------------
def _rustc_probe(path_or_text, deps, rlib, name):
    out_dir = os.path.join(WORK, "probe-out")
    os.makedirs(out_dir, exist_ok=True)
    if os.path.exists(path_or_text):
        src = path_or_text
    else:
        src = os.path.join(out_dir, name + ".rs")
        with open(src, "w") as f:
            f.write(path_or_text)
    cmd = ["rustc", "--edition", "2021", "--crate-type", "lib", "--crate-name", "probe", "--emit=metadata",
           "-A", "warnings", "-o", os.path.join(out_dir, name + ".rmeta"), "--extern", "gc_arena=" + rlib,
           "-L", "dependency=" + deps, src]
    rc, out = vlib.run(cmd, timeout=120)
    return ("accept" if rc == 0 else "reject"), out


def run_probes(info):
    """Compile every probe against the gc-arena built from the current tree. Returns list of dicts."""
    d = info["dir"]
    rlib = json.load(open(os.path.join(d, "done.json")))["rlib"]
    deps = os.path.join(d, "deps")
    files = sorted(f for f in os.listdir(PROBES) if f.endswith(".rs"))

    def one(f):
        p = os.path.join(PROBES, f)
        text = open(p).read()
        meta = dict(re.findall(r"(?m)^//@ ([\w-]+): (.*)$", text))
        verdict, out = _rustc_probe(p, deps, rlib, f[:-3])
        errs = [l for l in out.split("\n") if l.startswith("error")]
        return {"file": f, "expect": meta.get("expect", "?"), "verdict": verdict, "decided_by": meta.get("decided-by", ""),
                "clause": meta.get("clause", ""), "first_error": errs[0][:200] if errs else "", "text": text}

    with concurrent.futures.ThreadPoolExecutor(max_workers=6) as ex:
        return list(ex.map(one, files)), deps, rlib


# --------------------------------------------------------------------------------------------
# the check
# --------------------------------------------------------------------------------------------
def setup():
    os.makedirs(WORK, exist_ok=True)
    tools = build_tools()
    for k, (ok, out, _) in tools.items():
        if not ok:
            raise RuntimeError("c15 tool %s does not build:\n%s" % (k, out[-2000:]))
    run_translator(tools)
    ok, out = vlib.coq_make(CQ, timeout=1200)
    if not ok:
        raise RuntimeError("coq-derive does not build:\n" + out[-3000:])
    seed = int(os.environ.get("VERIF_SEED", "1") or 1)
    info = build_corpus(seed, TIERS["quick"]["corpus"])
    if not info["ok"]:
        raise RuntimeError("c15 corpus does not build:\n" + info["out"][-3000:])


def run(chk, tier, seed):
    t0 = time.time()
    cfg = TIERS[tier]
    os.makedirs(WORK, exist_ok=True)
    chk.checker_cmd = ("coq_makefile/make (full .vo) of /verif/coq-derive + Print Assumptions on Props/C15.v and FactsCheck.v"
                       + ("; coqchk" if tier == "thorough" else ""))
    chk.rule = ("distinct = number of distinct generated type shapes (by source text) that were compared between the "
                "model and the real derive (token level + run time); trivial = fieldless shapes, not counted")
    chk.trusted = [
        "Coq 8.16.1 kernel (coqc; coqchk in the thorough tier); vm_compute for model evaluation",
        "hand-written Gallina model of collect_derive (coq-derive/ModelDerive.v), tied to the source by the token-level "
        "and run-time correspondence and by FactsCheck",
        "synstructure 0.13.2 / syn 2 library functions (filter, each, variants, bindings, add_bounds, gen_impl, "
        "parse_nested_meta) modelled by documented meaning; the expander links the same library versions",
        "harness-derive/expander (extracts collect_derive's source with syn and normalises its output tokens)",
        "harness-derive/shapegen.py (generator; Rust/Coq/JSON renderers of one shape) and the generated corpus program "
        "(recording Trace impl, pointer tokens identified by address)",
        "translator-derive (structural fact extraction after normalisation: single-call helpers spliced, match / if-let / early return / let-bound conditions brought to one if-chain shape, locals renamed by role)",
        "rustc 1.95 as the oracle for accept/reject of probes and for what the emitted guards mean "
        "(conflicting-impl check, 'static and trait bounds)",
        "modelled, not verified: NEEDS_TRACE / trace of the field types themselves (C16) - measured by the harness, "
        "not assumed; proc-macro hygiene/spans; attribute forms outside the meta_item grammar of the model",
    ]

    # ---- 1. tools, regenerate, prove, audit
    tools = build_tools()
    tdetail = run_translator(tools)
    coq_ok = coq_build_and_audit(chk)
    facts_ok, failing_facts = coq_facts(chk, tdetail)
    if tier == "thorough" and coq_ok:
        ok, out = vlib.coqchk(CQ, LOGICAL, ["GADerive.Props.C15", "GADerive.FactsCheck"], timeout=1500)
        chk.obligation("coqchk GADerive.Props.C15 GADerive.FactsCheck", ok, out[-2000:])
    vlib.log("[C15] coq done %.1fs" % (time.time() - t0))

    seeds = [seed + 7919 * k for k in range(cfg["seeds"])]
    all_viol, all_mism_rt, all_mism_tok = [], [], []
    tok_stats_total, rt_stats_total = {}, {}
    dist_shapes, distinct = [], set()
    corpus_infos = []
    evaluations = 0
    model_ok = coq_ok

    for sd in seeds:
        # ---- 2. run-time corpus
        info = build_corpus(sd, cfg["corpus"])
        corpus_infos.append(info)
        vlib.log("[C15] corpus seed=%d built ok=%s cached=%s %.1fs" % (sd, info["ok"], info["cached"], time.time() - t0))
        obs, ran = None, False
        if info["ok"]:
            ran, obs, tail = run_corpus(info)
            if not ran:
                info["ok"] = False
                info["out"] = "corpus program failed at run time:\n" + tail
        # ---- 3. shapes for the token level: corpus shapes + seeded positive/negative shapes
        cshapes = [e["shape"] for e in info["corpus"].types]
        tshapes = sg.gen_token_shapes(sd, cfg["token"])
        dist_shapes += cshapes
        base_t = len(cshapes)
        cases = []
        for ti, e in enumerate(info["corpus"].types):
            rhos = []
            if obs is not None and info["exp"][ti] is not None:
                for ii, ie in enumerate(info["exp"][ti]["insts"]):
                    trues = sorted(set(ty for k, ty in ie["atoms"].items()
                                       if obs["A"].get((ti, ii) + tuple(int(x) for x in k.split(".")))))
                    rhos.append(trues)
            cases.append((ti, e["shape"], rhos))
        cases += [(base_t + i, s, []) for i, s in enumerate(tshapes)]
        model, merr = model_eval(cases, "%s_%d" % (tier, sd)) if model_ok else ({}, "coq project does not build")
        if merr:
            chk.correspondence("model evaluation (vm_compute) seed=%d" % sd, False, merr)
            model_ok = False
        impl, eerr = run_expander(tools, [(c[0], c[1]) for c in cases], "%s_%d" % (tier, sd))
        vlib.log("[C15] model+expander seed=%d %.1fs" % (sd, time.time() - t0))
        if impl is None:
            chk.correspondence("token level: real collect_derive vs model, seed=%d" % sd, False, eerr)
            all_mism_tok.append({"id": -1, "what": eerr})
        elif model:
            mism, stt = compare_tokens([(c[0], c[1]) for c in cases], model, impl)
            major = [m for m in mism if not m.get("minor")]
            for m in mism:
                m["seed"] = sd
            all_mism_tok += mism
            for k, v in stt.items():
                d = tok_stats_total.setdefault(k, {})
                for kk, vv in v.items():
                    d[kk] = d.get(kk, 0) + vv
            chk.correspondence("token level: real collect_derive vs model on %d shapes (%d corpus + %d positive/negative), seed=%d" % (
                len(cases), base_t, len(tshapes), sd), not major,
                "" if not major else "first differences: " + json.dumps([{k: m[k] for k in ("id", "diff", "mustreject")} for m in major[:3]])[:2500])
            evaluations += len(cases)
            for c in cases:
                if sum(len(v["fields"]) for v in sg.variants_of(c[1])) > 0:
                    distinct.add(_sha(re.sub(r"\b%s\b" % c[1]["name"], "_", sg.to_rust(c[1], derive=False))))
        # ---- 4. run-time comparison
        if info["ok"] and obs is not None and model:
            r = check_runtime(info, obs, model, 0)
            for v in r["violations"]:
                v["seed"] = sd
            all_viol += r["violations"]
            all_mism_rt += [dict(m, seed=sd) for m in r["mismatches"]]
            for k, v in r["stats"].items():
                rt_stats_total[k] = rt_stats_total.get(k, 0) + v
            major = [m for m in r["mismatches"] if not m.get("minor")]
            chk.correspondence("run time: recording tracer + NEEDS_TRACE vs model on %d types / %d values, seed=%d" % (
                r["stats"]["types"], r["stats"]["values_traced"], sd), not major and not r["violations"],
                json.dumps((r["violations"] + major)[:2], default=str)[:2500] if (major or r["violations"]) else "")
            evaluations += r["stats"]["values_traced"] + r["stats"]["instantiations"]
        elif not info["ok"]:
            chk.correspondence("run time: corpus compiles and runs against the current derive, seed=%d" % sd, False, info["out"][-3000:])
        if info["ok"] and info["excluded"]:
            chk.correspondence("run time: every corpus type compiles under the current derive, seed=%d" % sd, False,
                               "%d of %d types (the model accepts all of them) had to be quarantined, e.g. %s\n%s" % (
                                   len(info["excluded"]), len(info["corpus"].types),
                                   [info["corpus"].types[i]["shape"]["name"] for i in info["excluded"][:8]], info["excluded_errors"][-2500:]))

    # ---- 5. probes
    probe_res, probe_viol, probe_mism = [], [], []
    good = [i for i in corpus_infos if i["ok"]]
    base = good[0] if good else None
    if base is None:
        # the corpus does not compile: still need gc-arena itself for the probes -> tiny corpus
        tiny = build_corpus(seed, 0)
        base = tiny if tiny["ok"] else None
    if base is not None:
        probe_res, deps, rlib = run_probes(base)
        for p in probe_res:
            if p["expect"] == "reject" and p["verdict"] == "accept":
                probe_viol.append(p)
            elif p["expect"] == "accept" and p["verdict"] == "reject" and "const _: () = assert!" in p.get("text", ""):
                # an accept-probe whose const assertions state facts the derive must generate (NEEDS_TRACE of a
                # type with a traced pointer field ...): its rejection is a failing input, not just a drift
                p = dict(p, asserted=True)
                probe_viol.append(p)
            elif p["expect"] != p["verdict"]:
                probe_mism.append(p)
        chk.correspondence("compile probes: %d programs (%d reject + %d accept twins) get the expected rustc verdict" % (
            len(probe_res), sum(1 for p in probe_res if p["expect"] == "reject"), sum(1 for p in probe_res if p["expect"] == "accept")),
            not probe_viol and not probe_mism,
            "; ".join("%s expected %s got %s" % (p["file"], p["expect"], p["verdict"]) for p in probe_viol + probe_mism))
        evaluations += len(probe_res)
    else:
        chk.correspondence("compile probes", False, "gc-arena does not build from the current tree: " + (corpus_infos[0]["out"][-1500:] if corpus_infos else ""))
    chk.cov["probe_verdicts"] = {p["file"]: {"expect": p["expect"], "verdict": p["verdict"], "first_error": p["first_error"]} for p in probe_res}

    # ---- 6. failure protocol
    _decide(chk, tier, seed, cfg, all_viol, all_mism_rt, all_mism_tok, probe_viol, base, tools, corpus_infos)

    # ---- 7. evidence
    chk.evaluations = evaluations
    chk.distinct = len(distinct)
    chk.cov["shape_distribution_corpus"] = sg.distribution(dist_shapes)
    chk.cov["token_level"] = tok_stats_total
    chk.cov["run_time"] = rt_stats_total
    chk.cov["traces_validated_against_impl"] = rt_stats_total.get("values_traced", 0)
    chk.cov["seeds"] = seeds
    chk.cov["repo"] = vlib.REPO
    if corpus_infos and corpus_infos[0]["corpus"].types:
        e = corpus_infos[0]["corpus"].types[min(5, len(corpus_infos[0]["corpus"].types) - 1)]
        chk.sample("corpus type: " + sg.to_rust(e["shape"]).replace("\n", " "))
        ts = sg.gen_token_shapes(seeds[0], 12)
        chk.sample("token-level shape: " + sg.to_rust(ts[7], derive=False).replace("\n", " "))
    for p in probe_res[:3]:
        chk.sample("probe %s: expect %s, rustc %s" % (p["file"], p["expect"], p["verdict"]))
    chk.notes.append("boundary of the rejection clauses (proved, Props/C15.v *_unconditional_refuted): with `require_static` as the "
                     "MODE, collect_derive never inspects field/variant attributes or the number of lifetimes, so "
                     "#[collect(require_static)] on an enum variant is accepted there (probe scope_variant_attr_under_require_static_mode); "
                     "the type is then 'static and nothing is traced, so this is not counted as a violation")


def _decide(chk, tier, seed, cfg, viols, mism_rt, mism_tok, probe_viol, base, tools, infos):
    """Failure protocol.  Concrete violations of the *statement* by the implementation:
       (1) a run-time oracle failed (missed pointer / wrong NEEDS_TRACE): replay = type definition + value + placement;
       (2) a probe that the statement says must be rejected is accepted by rustc: replay = the program;
       (3) the real macro accepted (token level) a shape whose rejection is demanded by C15_rejects_in_macro and rustc
           accepts the sanitised program: replay = that program.
       Everything else that differs is a broken correspondence; before giving up a directed corpus biased to the
       diverging shapes' mode/kind is compiled and run under the oracles."""
    per_key = {}
    for v in viols:
        if per_key.get(v["key"], 0) >= 2:
            continue
        per_key[v["key"]] = per_key.get(v["key"], 0) + 1
        chk.violation(v["desc"], v["replay"], key=v["key"])
    if viols:
        chk.notes.append("run-time oracle failures in total: %d" % len(viols))
    for p in probe_viol:
        if p.get("asserted"):
            chk.violation("a compile-time assertion about the generated impl fails (%s): %s: %s" % (p["clause"], p["file"], (p.get("first_error") or "")[:200]),
                          "// probe %s, compiled as a library against the current tree (%s); expected: accept, got: reject\n%s" % (p["file"], vlib.REPO, p["text"]),
                          key="probe:" + p["file"])
            continue
        chk.violation("rustc ACCEPTS a program that the derive must refuse (%s): %s" % (p["clause"], p["file"]),
                      "// probe %s, compiled as a library against the current tree (%s); expected: reject, got: accept\n%s" % (p["file"], vlib.REPO, p["text"]),
                      key="probe:" + p["file"])
    # (3) macro accepted what must be rejected
    cand = [m for m in mism_tok if m.get("shape") and m.get("impl", [""])[0] == "class ok"
            and m.get("mustreject") and len(m["mustreject"][0].split()) > 1]
    confirmed = 0
    if cand and base is not None:
        d = base["dir"]
        rlib = json.load(open(os.path.join(d, "done.json")))["rlib"]
        for m in cand[:12]:
            t = sg.sanitize(m["shape"])
            if t is None:
                continue
            prog = "use gc_arena::Collect;\n" + sg.to_rust(t)
            verdict, out = _rustc_probe(prog, os.path.join(d, "deps"), rlib, "sanitized_%d" % m["id"])
            if verdict == "accept":
                confirmed += 1
                chk.violation("derive(Collect) accepts a type that it must refuse (%s)" % m["mustreject"][0],
                              "// compiled as a library against the current tree (%s): rustc accepts it\n%s\n// macro output (normalised): %s\n" % (vlib.REPO, prog, m["impl"]),
                              key="accepts:" + m["mustreject"][0])
                if confirmed >= 2:
                    break
    # directed search when something is broken but nothing concrete was found
    major_rt = [m for m in mism_rt if not m.get("minor")]
    major_tok = [m for m in mism_tok if not m.get("minor")]
    broken = major_rt or major_tok or any((not i["ok"]) or i["excluded"] for i in infos)
    if broken and not chk.viols:
        biases = []
        for m in major_tok[:40]:
            sh = m.get("shape")
            if sh and m.get("impl", [""])[0] == "class ok":
                b = {"mode": sg.mode_of(sh) or "no_drop",
                     "kind": "enum" if sh["data"]["kind"] == "enum" else sh["data"].get("fk", "named")}
                if b["mode"] in ("no_drop", "unsafe_drop", "require_static") and b not in biases:
                    biases.append(b)
        if not biases:
            biases = [{"mode": "no_drop", "kind": "enum"}, {"mode": "no_drop", "kind": "named"}]
        found = 0
        for b in biases[:3]:
            info = build_corpus(seed + 104729, cfg["directed"], bias=b)
            if not info["ok"]:
                chk.notes.append("directed corpus %s does not compile: %s" % (b, info["out"][-400:]))
                continue
            ran, obs, tail = run_corpus(info)
            if not ran:
                continue
            cases = [(ti, e["shape"], []) for ti, e in enumerate(info["corpus"].types)]
            model, _ = model_eval(cases, "directed")
            r = check_runtime(info, obs, model, 0) if model else {"violations": []}
            for v in r["violations"][:2]:
                chk.violation("[directed search %s] %s" % (b, v["desc"]), v["replay"], key=v["key"])
                found += 1
            if found:
                break
        chk.notes.append("directed search over %s: %d violating inputs" % (biases[:3], found))
    chk.cov["mismatches"] = {"run_time": len(major_rt), "token_level": len(major_tok),
                             "minor": len([m for m in mism_rt + mism_tok if m.get("minor")])}
    minor = [m for m in mism_rt + mism_tok if m.get("minor")]
    if minor:
        chk.notes.append("minor differences (not failing): " + json.dumps([m.get("what") for m in minor[:5]])[:600])


def replay(path):
    """Re-run a stored replay: print it, and if it contains a program, recompile it against the current tree."""
    text = open(path).read()
    print(text)
    if "use gc_arena" in text:
        info = build_corpus(int(os.environ.get("VERIF_SEED", "1") or 1), 0)
        if info["ok"]:
            d = info["dir"]
            rlib = json.load(open(os.path.join(d, "done.json")))["rlib"]
            prog = "\n".join(l for l in text.split("\n") if not l.startswith("# "))
            verdict, out = _rustc_probe(prog, os.path.join(d, "deps"), rlib, "replay")
            print("rustc verdict on the current tree: %s" % verdict)
            print(out[-1500:])
    return 0
