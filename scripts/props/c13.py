"""C13 -- safe code cannot adopt a pointer without a write barrier.

Proof part (Coq, /verif/coq-api/Props/C13.v): the derivation calculus for `&Write<_>` over the
constructor / projection / marker-impl tables regenerated from the current source tree;
`C13_covered` by induction on derivations, its premise by vm_compute on the generated lists;
`C13_unlock_needs_write`, `C13_cells_static`, side conditions on declarations.
Test part: the probe corpus /verif/probes/c13 checks rule by rule that rustc accepts exactly what the
calculus derives; every accepted probe that mutates the graph is run under a C01-style oracle (a pointer
stored through the obtained Write into a fully marked holder must survive finish_cycle x2).
"Safe" = free of the `unsafe` keyword (passes #![forbid(unsafe_code)]).
"""
import os, re, sys

sys.path.insert(0, os.path.dirname(os.path.dirname(os.path.abspath(__file__))))
import vlib
from props import static_facts as sf

SETUP_KEY = "api"
PID = "C13"
THEOREMS = ["C13_covered", "C13_premise", "C13_covered_generated", "C13_side_conditions",
            "C13_unlock_needs_write", "C13_cells_static"]
DEMO_RCS = (3, -11, -7, 139, 135)   # oracle says C01 violated / the safe program crashed with SIGSEGV/SIGBUS
CTOR_ALIASES = {"Slice": "Slice", "Array": "Array", "Ref": "Ref"}


def setup():
    sf.setup()


def _report():
    evals = [
        ("ctors", "map (fun f => (fq f, so (ctor_origin f) ++ (if fs_unsafe f then \" unsafe\" else \" safe\"))) (filter is_ctor write_fns)"),
        ("ctor_ok", "map (fun f => (fq f, sb (ctor_ok f))) (filter is_ctor write_fns)"),
        ("projs", "map (fun f => (fq f, sk (proj_kind_of f) ++ (if fs_unsafe f then \" unsafe\" else \" safe\"))) (filter is_projection write_fns)"),
        ("proj_ok", "map (fun f => (fq f, sb (proj_ok f))) (filter is_projection write_fns)"),
        ("deref", "map (fun i => (ctor_name (i_self i), sc (class_of (i_self i)))) deref_write_impls"),
        ("index", "map (fun i => (ctor_name (i_self i), sc (class_of (i_self i)))) index_write_impls"),
        ("unlock", "map (fun i => (ctor_name (i_self i), sb (unlock_impl_ok i))) unlock_impls"),
        ("lock_fns", "map (fun f => (fq f, sb (lock_fn_ok f))) lock_fns"),
        ("cells", "map (fun i => (ctor_name (i_self i), sb (collect_impl_static_ok i))) (filter is_guarded_collect_impl collect_impls)"),
        ("side", "[(\"field! has the by-pattern shape\", sb (field_macro_ok field_macro)); "
                 "(\"unlock! is field!(..).unlock()\", sb (unlock_macro_ok unlock_macro)); "
                 "(\"DerefWrite is an unsafe trait\", sb (trait_is_unsafe traits \"DerefWrite\")); "
                 "(\"IndexWrite is an unsafe trait\", sb (trait_is_unsafe traits \"IndexWrite\")); "
                 "(\"Unlock::unlock_unchecked is an unsafe fn\", sb (trait_fn_unsafe traits \"Unlock\" \"unlock_unchecked\")); "
                 "(\"Write is #[non_exhaustive] #[repr(transparent)]\", sb (write_struct_ok decls)); "
                 "(\"lock types keep their cell private\", sb (forallb (lock_struct_ok decls) lock_names))]"),
        ("private_write_fns", "map (fun f => (fq f, fs_vis f ++ (if fs_unsafe f then \" unsafe\" else \" safe\"))) "
                              "(filter (fun f => yields_write (fs_ret f) && negb (is_public f)) write_fns)"),
        ("unknown", "map (fun s => (s, \"\")) GenWrite.unknown_items"),
    ]
    return sf.model_report("c13_report", evals)


def run(chk, tier, seed):
    chk.rule = ("Coq: C13_covered by induction on derivations, premise + signature scans by vm_compute over regenerated tables; "
                "probes: rustc accept/reject per calculus rule, accepted probes run under a C01 oracle (store through the Write "
                "into a black holder, finish_cycle x2, payload must not be destructed)")
    chk.checker_cmd = "translator-api -> coq_makefile/make Props/C13.vo (full .vo) + Print Assumptions; rustc + run of /verif/probes/c13"
    chk.trusted += [
        "Coq 8.16.1 kernel incl. vm_compute",
        "translator-api (syn 2 + local macro_rules expander): Write constructors/projections (with visibility; body facts of private helpers inlined into their callers when the call resolves unambiguously), DerefWrite/IndexWrite/Unlock/Collect impl headers, "
        "lock.rs functions (incl. make_lock_wrapper! expansion), field!/unlock! macro shape; fails closed",
        "coq-api/ModelWrite.v: the calculus itself (our reading of which safe expressions yield a Write), the ownership-class table "
        "(unknown constructor = Shared) and `covered` (composition with the C06 barrier theorems is the coordinator's)",
        "rustc as oracle for the probes; harness-api/src/oracle.rs (drop-counting payload)",
    ]
    chk.assumptions.append("'free of unsafe code' is read as: no `unsafe` keyword (passes #![forbid(unsafe_code)]); a user impl of the safe "
                           "trait Unlock needs an `unsafe fn` and is outside the property")

    rep = {}
    with sf.locked():
        ok, summ = sf.prepare(chk, PID)
        if ok:
            sf.forbidden_scan(chk)
            okr, rep, raw = _report()
            chk.correspondence("C13: model report evaluated", okr, raw[-1500:] if not okr else "")
            sf.build_and_audit(chk, "Props/C13.v", THEOREMS)
    # Write-returning functions that are not callable from outside the crate (private / pub(crate)): not constructors
    # of the calculus; the public functions calling them are judged with the helpers' bodies inlined by the translator
    for k in ("ctors", "projs", "deref", "index", "unlock", "cells", "side", "private_write_fns"):
        chk.cov["model_" + k] = rep.get(k, [])
    chk.evaluations += sum(len(v) for v in rep.values())

    offenders = []
    for sec, what in (("ctor_ok", "safe constructor of Write with no sanctioned origin (Forged)"),
                      ("proj_ok", "safe projection of Write the calculus does not know"),
                      ("lock_fns", "public safe lock-API function reaches the unlocked cell without Write / barrier"),
                      ("cells", "Collect impl for an interior-mutability / reference type without T: 'static"),
                      ("unlock", "Unlock impl for a type that is not a lock type"),
                      ("side", "declaration-level condition fails")):
        for k, v in rep.get(sec, []):
            if v != "true":
                offenders.append("%s: %s" % (what, k))
    for sec in ("deref", "index"):
        for k, v in rep.get(sec, []):
            if v != "Unique":
                offenders.append("%sWrite impl for a type constructor that does not own its target uniquely: %s"
                                 % ("Deref" if sec == "deref" else "Index", k))
    for k, _ in rep.get("unknown", []):
        offenders.append("unclassified syntax: " + k)
    chk.cov["offending_items"] = offenders

    if tier == "thorough":
        sf.thorough_coqchk(chk, ["GAApi.Props.C13"])
    okh, texth, host = sf.host_build()
    chk.correspondence("C13: crate builds (rlib for the probes)", okh, texth[-2000:] if not okh else "")
    if not okh:
        if offenders:
            chk.obligation("C13: offending items", False, "\n".join(offenders))
        return
    res = sf.run_probes("c13", host)
    chk.evaluations += len(res)
    chk.distinct = len(res)
    verdicts, notes = {}, []
    n_run = 0
    for pid in sorted(res):
        r = res[pid]
        rc = r.get("run_rc")
        if rc is not None:
            n_run += 1
        verdicts[pid] = ("accepted" if r["accepted"] else "rejected " + ",".join(r["codes"])) + ((" run=%s" % rc) if rc is not None else "")
        n = sf.code_note(r)
        if n:
            notes.append(n)
        src = "// probe %s (item %s)\n%s" % (r["path"], r.get("item"), open(r["path"]).read())
        if r["accepted"] and rc in DEMO_RCS:
            # A safe program that compiles and loses a reachable pointer (or crashes): C13 violated.
            what = ("which the calculus says must be REJECTED" if r["expect"] == "reject" else "a sanctioned path")
            chk.violation("C13: the safe program %s (item %s, %s) compiles and its run violates C01: exit code %s, output: %s"
                          % (pid, r.get("item"), what, rc, (r.get("run_out") or "").strip()[-300:]), src, key=r.get("known"))
            chk.sample("violating probe: " + pid)
            continue
        if r["expect"] == "reject" and r["accepted"]:
            chk.correspondence("C13 calculus<->rustc %s (%s)" % (pid, r.get("item")), False,
                               "the calculus does not derive this Write but rustc accepts the program"
                               + ("; its run held the oracle (rc=%s)" % rc if rc is not None else "; probe has no run"))
            continue
        good, why = sf.judge_probe(r)
        if not good:
            chk.correspondence("C13 calculus<->rustc %s (%s)" % (pid, r.get("item")), False, why)
    chk.cov["probe_verdicts"] = verdicts
    chk.cov["probe_code_notes"] = notes
    chk.cov["probes_total"] = len(res)
    chk.cov["probes_run_under_oracle"] = n_run
    chk.cov["traces_validated_against_impl"] = n_run

    # ---- table <-> corpus cross-check: every generated item has its probes ------------------------
    items = {}
    for r in res.values():
        if r.get("item"):
            items.setdefault(r["item"], []).append(r)

    def has_accept(prefix):
        return any(k == prefix or k.startswith(prefix + ":") for k, rs in items.items()
                   if any(x["expect"] == "accept" and x["accepted"] for x in rs))

    def all_rejected(prefix):
        rs = [x for k, v in items.items() if (k == prefix or k.startswith(prefix + ":")) for x in v if x["expect"] == "reject"]
        return (all(not x["accepted"] for x in rs)) if rs else None

    n_x = 0
    for sec, tr in (("deref", "DerefWrite"), ("index", "IndexWrite")):
        present = set()
        for k, v in rep.get(sec, []):
            present.add(k)
            n_x += 1
            if v == "Unique":
                chk.correspondence("C13 %s impl for %s has an accepted + run probe" % (tr, k), has_accept("%s:%s" % (tr, k)),
                                   "impl in the generated list (class Unique): a positive probe must compile and hold the oracle")
        for cand in ("Ref", "Rc", "Arc", "Gc"):
            rj = all_rejected("%s:%s" % (tr, cand))
            if cand not in present and rj is not None:
                n_x += 1
                chk.correspondence("C13 no %s impl for %s: probes rejected" % (tr, cand), rj,
                                   "not in the generated impl list: the negative probes must be rejected")
    for k, v in rep.get("ctors", []):
        n_x += 1
        if v.endswith(" safe"):
            chk.correspondence("C13 safe constructor %s has an accepted probe" % k, has_accept("ctor:" + k), v)
        else:
            chk.correspondence("C13 unsafe constructor %s cannot be called without `unsafe`" % k, bool(all_rejected("ctor:" + k)), v)
    for k, _ in rep.get("unlock", []):
        n_x += 1
        chk.correspondence("C13 Unlock impl for %s has an accepted + run probe" % k, has_accept("Unlock:" + k), "")
    for k, _ in rep.get("cells", []):
        n_x += 1
        chk.correspondence("C13 Collect for %s<T: 'static>: pointer-holding instance rejected" % k, bool(all_rejected("cell:" + k)), "")
    chk.cov["table_corpus_crosschecks"] = n_x

    if tier == "thorough":
        res2 = sf.run_probes("c13", host, opt=True)
        diff = [p for p in res if res2.get(p, {}).get("accepted") != res[p]["accepted"] or res2.get(p, {}).get("run_rc") != res[p].get("run_rc")]
        chk.correspondence("C13 probes: same verdicts and oracle results with -C opt-level=2", not diff, ", ".join(diff))
        chk.evaluations += len(res2)
    if offenders:
        chk.obligation("C13: offending items found by evaluating the checkers per item", False, "\n".join(offenders))
    for pid in list(sorted(res))[:6]:
        chk.sample("%s: %s" % (pid, verdicts[pid]))


def replay(path):
    txt = open(path).read()
    if "no concrete failing input was found" in txt[:200]:
        print(txt)   # names the theorem / correspondence that no longer checks; nothing to re-run
        return 0
    m = re.search(r"(?m)^// probe (\S+)", txt)
    src = txt[txt.index("// probe "):] if "// probe " in txt else txt
    okh, texth, host = sf.host_build()
    if not okh:
        print("crate does not build:\n" + texth)
        return 1
    name = os.path.splitext(os.path.basename(m.group(1)))[0] if m else "replay"
    # the probes include the oracle by a path relative to /verif/probes/c13
    src = src.replace('#[path = "../../harness-api/src/oracle.rs"]', '#[path = "%s"]' % os.path.join(sf.HARNESS_DIR, "src", "oracle.rs"))
    r = sf.compile_probe(name + ".rs", host, os.path.join(sf.API_BUILD, "replay"), src_text=src)
    print("required: rejected by rustc, or a run that keeps the stored pointer alive (exit 0).")
    print("observed: %s %s" % ("ACCEPTED" if r["accepted"] else "rejected", r["codes"]))
    for e in r["errors"]:
        print("  " + e)
    if r["accepted"]:
        rc, out = sf.run_exe(r["exe"])
        print("run: exit code %s\n%s" % (rc, out))
        return 1 if rc != 0 else 0
    return 0
