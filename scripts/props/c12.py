"""C12 -- brand isolation: arena pointers cannot escape their callback or arena.

Proof part (Coq, /verif/coq-api/Props/C12.v over tables regenerated from the current source tree):
variance of every brand-carrying type (least fixed point of rustc's variance rules), auto traits,
callback signatures, 'static-only Collect impls, and the generic subtyping lemma.
Test part (labelled as such): the compile-probe corpus /verif/probes/c12 validates the declared-rules
model against rustc and is the search space for a failing program when a theorem breaks.

The property is PARTIAL: that rustc implements the declared rules and that nothing else in safe Rust
breaks generativity is modelled, not proved.
"""
import os, re, sys

sys.path.insert(0, os.path.dirname(os.path.dirname(os.path.abspath(__file__))))
import vlib
from props import static_facts as sf

SETUP_KEY = "api"
PID = "C12"
THEOREMS = ["C12_invariant", "C12_invariant_base", "C12_variance_fixpoint", "C12_alias_invariant",
            "C12_not_send_sync", "C12_callbacks", "C12_sub_preserves_brand", "C12_static_only",
            "C12_impl_args_keep_brand", "C12_args_share_brand", "C12_no_unknown_syntax"]

# probe item "variance:<Type>:.." -> (kind, name in the model's tables)
VARIANCE_TYPES = {
    "Gc": ("adt", "Gc"), "GcWeak": ("adt", "GcWeak"), "GcBuilder": ("adt", "GcBuilder"),
    "Mutation": ("adt", "Mutation"), "Finalization": ("adt", "Finalization"),
    "DynamicRootSet": ("adt", "DynamicRootSet"), "ZstCache": ("adt", "ZstCache"),
    "GcLock": ("alias", "GcLock"), "GcRefLock": ("alias", "GcRefLock"), "GcSlice": ("alias", "GcSlice"),
    "GcStr": ("alias", "GcStr"), "GcThinSlice": ("alias", "GcThinSlice"),
}
AUTO_TYPES = {"Gc", "GcWeak", "GcBuilder", "Mutation", "Finalization", "DynamicRootSet", "ZstCache", "Arena",
              "MarkedArena", "Metrics", "DynamicRoot"}


def setup():
    sf.setup()


def _report():
    evals = [
        ("variance_lt", "flat_map (fun e => map (fun iv => (fst e ++ \"#\" ++ nat_s (fst iv), sv (snd iv))) "
                        "(enum_from 0 (fst (snd e)))) (variances (mk_adts decls))"),
        ("variance_tp", "flat_map (fun e => map (fun iv => (fst e ++ \"#\" ++ nat_s (fst iv), sv (snd iv))) "
                        "(enum_from 0 (snd (snd e)))) (filter (fun e => mem (fst e) [\"Gc\"; \"GcWeak\"]) (variances (mk_adts decls)))"),
        ("branded", "map (fun q => (fst q ++ \"#\" ++ nat_s (snd q), sb (invariant_ok (mk_adts decls) (variances (mk_adts decls)) q))) "
                    "(branded (mk_adts decls))"),
        ("alias", "map (fun a => (fst (fst a), sv (snd a))) (alias_variances decls (variances (mk_adts decls)))"),
        ("auto_send", "map (fun n => (n, match find_decl decls n with Some d => sb (auto impls decls AUTO_FUEL ASend (generic_instance d)) | None => \"missing\" end)) not_send_sync_names"),
        ("auto_sync", "map (fun n => (n, match find_decl decls n with Some d => sb (auto impls decls AUTO_FUEL ASync (generic_instance d)) | None => \"missing\" end)) not_send_sync_names"),
        ("callbacks", "map (fun f => (fs_name f, sb (callback_ok decls f))) (callback_fns arena_fns)"),
        ("other_sources", "map (fun f => (fs_name f, sb (no_other_context_source decls f))) arena_fns"),
        ("static_only", "map (fun i => (ctor_name (i_self i), sb (collect_impl_static_ok i))) (filter is_guarded_collect_impl collect_impls)"),
        ("impl_brand", "map (fun i => (i_trait i ++ \" for \" ++ ctor_name (i_self i) ++ \" (\" ++ i_file i ++ \")\", sb (impl_args_brand_ok i))) "
                       "(filter (fun i => match impl_arg_lts i with [] => false | _ => true end) impls)"),
        ("args_brand", "map (fun f => (fq f, sb (ModelSigs.args_share_brand decls (branded (mk_adts decls)) f))) "
                       "(filter (fun f => Nat.ltb 1 (List.length (ModelSigs.fn_brands decls (branded (mk_adts decls)) f))) GenSigs.pub_fns)"),
        ("unknown", "map (fun s => (s, \"\")) GenTypes.unknown_items"),
    ]
    return sf.model_report("c12_report", evals)


def _model_verdicts(rep):
    """-> (variance {Type: 'Inv'|...}, tvariance {Type: ..}, send {Type: bool}, sync {Type: bool})."""
    vl = dict(rep.get("variance_lt", []))
    vt = dict(rep.get("variance_tp", []))
    al = dict(rep.get("alias", []))
    var = {}
    for t, (kind, name) in VARIANCE_TYPES.items():
        var[t] = vl.get(name + "#0") if kind == "adt" else al.get(name)
    tvar = {t: vt.get(t + "#0") for t in ("Gc", "GcWeak")}
    send = {k: v == "true" for k, v in rep.get("auto_send", [])}
    sync = {k: v == "true" for k, v in rep.get("auto_sync", [])}
    return var, tvar, send, sync


def run(chk, tier, seed):
    chk.rule = ("Coq: forallb checks over regenerated declaration tables lifted by forallb_forall + generic subtyping lemma by "
                "induction; probes: rustc accept/reject of each negative probe and its positive twin, compared with the model's verdicts")
    chk.checker_cmd = "translator-api -> coq_makefile/make Props/C12.vo (full .vo) + Print Assumptions; rustc on /verif/probes/c12"
    chk.trusted += [
        "Coq 8.16.1 kernel incl. vm_compute",
        "translator-api (syn 2): type declarations, impl headers, arena.rs signatures; fails closed on unknown syntax",
        "the declared variance / auto-trait rules and primitive tables of coq-api/ModelTypes.v (validated against rustc by probes, not proved)",
        "rustc as oracle for the compile probes; HRTB generativity of `for<'gc>` (hypothesis brand_antisym of C12_sub_preserves_brand)",
    ]
    chk.assumptions.append("PARTIAL: type-system soundness of rustc (variance, auto traits, HRTB generativity, WF of dyn projections) is modelled, not proved")
    chk.notes.append("The probe corpus is a test (validation of the model against rustc + search space), not a proof.")

    rep = {}
    with sf.locked():
        ok, summ = sf.prepare(chk, PID)
        if ok:
            sf.forbidden_scan(chk)
            okr, rep, raw = _report()
            chk.correspondence("C12: model report evaluated", okr, raw[-1500:] if not okr else "")
            thm = sf.build_and_audit(chk, "Props/C12.v", THEOREMS)
        else:
            thm = {}
    var, tvar, send, sync = _model_verdicts(rep)
    chk.cov["model_variance"] = var
    chk.cov["model_variance_T"] = tvar
    chk.cov["model_send"] = send
    chk.cov["model_sync"] = sync
    chk.cov["model_branded"] = rep.get("branded", [])
    chk.cov["model_callbacks"] = rep.get("callbacks", [])
    chk.evaluations += sum(len(v) for v in rep.values())

    # ---- offending items of a broken theorem (evaluated per item) ---------------------------------
    offenders = []
    for k, v in rep.get("branded", []):
        if v != "true":
            offenders.append("brand-carrying lifetime parameter %s is not invariant (model: %s)" % (k, dict(rep.get("variance_lt", [])).get(k)))
    for k, v in rep.get("alias", []):
        if k in VARIANCE_TYPES and v != "Inv":
            offenders.append("alias %s is %s in its brand" % (k, v))
    for t in sorted(AUTO_TYPES):
        if send.get(t):
            offenders.append("%s may be Send" % t)
        if sync.get(t):
            offenders.append("%s may be Sync" % t)
    for k, v in rep.get("callbacks", []):
        if v != "true":
            offenders.append("callback signature of `%s` lets the brand escape / is not higher-ranked" % k)
    for k, v in rep.get("other_sources", []):
        if v != "true":
            offenders.append("arena.rs fn `%s` hands out a Mutation/Finalization outside a for<'gc> callback" % k)
    for k, v in rep.get("static_only", []):
        if v != "true":
            offenders.append("Collect impl for %s<T> lacks T: 'static" % k)
    for k, v in rep.get("impl_brand", []):
        if v != "true":
            offenders.append("impl %s: a trait argument mentions a lifetime parameter the self type does not (the conversion can re-brand a pointer)" % k)
    chk.cov["model_impl_brand"] = rep.get("impl_brand", [])
    for k, v in rep.get("args_brand", []):
        if v != "true":
            offenders.append("fn %s takes its branded arguments (context / pointers / self) at different or anonymous lifetimes: a caller can mix two arenas" % k)
    chk.cov["model_args_brand_checked"] = len(rep.get("args_brand", []))
    for k, _ in rep.get("unknown", []):
        offenders.append("unclassified syntax: " + k)
    chk.cov["offending_items"] = offenders

    # ---- probes ---------------------------------------------------------------------------------
    if tier == "thorough":
        sf.thorough_coqchk(chk, ["GAApi.Props.C12"])
    okh, texth, host = sf.host_build()
    chk.correspondence("C12: crate builds (rlib for the probes)", okh, texth[-2000:] if not okh else "")
    if not okh:
        if offenders:
            chk.obligation("C12: offending items", False, "\n".join(offenders))
        return
    res = sf.run_probes("c12", host)
    chk.evaluations += len(res)
    chk.distinct = len(res)
    verdicts = {}
    notes = []
    accepted_negatives = []
    for pid in sorted(res):
        r = res[pid]
        good, why = sf.judge_probe(r)
        verdicts[pid] = ("accepted" if r["accepted"] else "rejected " + ",".join(r["codes"])) + \
                        ((" run=%s" % r.get("run_rc")) if "run_rc" in r else "")
        n = sf.code_note(r)
        if n:
            notes.append(n)
        if r["expect"] == "reject" and r["accepted"]:
            accepted_negatives.append(r)
        elif not good:
            chk.correspondence("C12 probe %s (%s)" % (pid, r.get("item")), False, why)
    chk.cov["probe_verdicts"] = verdicts
    chk.cov["probe_code_notes"] = notes
    chk.cov["probes_total"] = len(res)
    chk.cov["probes_negative"] = sum(1 for r in res.values() if r["expect"] == "reject")

    # ---- model <-> rustc cross-check --------------------------------------------------------------
    by_item = {}
    for r in res.values():
        if r.get("item"):
            by_item.setdefault(r["item"], []).append(r)

    def rejected(item):
        rs = by_item.get(item)
        if not rs:
            return None
        return all(not r["accepted"] for r in rs)

    n_x = 0
    for t in VARIANCE_TYPES:
        m = var.get(t)
        co, contra = rejected("variance:%s:co" % t), rejected("variance:%s:contra" % t)
        if m is None or co is None or contra is None:
            chk.correspondence("C12 model<->rustc variance of %s" % t, False, "model=%s co-probe=%s contra-probe=%s (missing)" % (m, co, contra))
            continue
        pred = {"Inv": (True, True), "Co": (False, True), "Contra": (True, False), "Bi": (False, False)}[m]
        n_x += 1
        chk.correspondence("C12 model<->rustc variance of %s" % t, pred == (co, contra),
                           "model=%s predicts (co rejected, contra rejected)=%s; rustc: %s" % (m, pred, (co, contra)))
    for t in ("Gc", "GcWeak"):
        m, co = tvar.get(t), rejected("variance:%s:T:co" % t)
        if m is not None and co is not None:
            n_x += 1
            chk.correspondence("C12 model<->rustc variance of %s in T" % t, (m in ("Inv", "Contra")) == co,
                               "model=%s; rustc rejects the covariant coercion: %s" % (m, co))
    for t in sorted(AUTO_TYPES):
        for tr, tab in (("Send", send), ("Sync", sync)):
            rj = rejected("auto:%s:%s" % (t, tr))
            if rj is None or t not in tab:
                chk.correspondence("C12 model<->rustc %s: %s" % (t, tr), False, "no probe / no model verdict")
                continue
            n_x += 1
            chk.correspondence("C12 model<->rustc %s: %s" % (t, tr), (not tab[t]) == rj,
                               "model says %s%s; rustc %s the is_%s assertion" % ("" if tab[t] else "not ", tr, "rejects" if rj else "accepts", tr.lower()))
    chk.cov["model_rustc_crosschecks"] = n_x

    # ---- violations: an escape / coercion / Send program that rustc accepts ------------------------
    for r in accepted_negatives:
        rc = r.get("run_rc")
        demo = ""
        if rc is not None:
            demo = " Run: exit code %s; output: %s" % (rc, (r.get("run_out") or "").strip()[-400:])
        desc = ("C12: rustc ACCEPTS the safe program %s (item %s) which the property says must be rejected.%s"
                % (r["id"], r.get("item"), demo))
        replay = "// probe %s -- compile with: rustc --edition 2024 --extern gc_arena=<rlib of /repo>\n%s" % (
            r["path"], open(r["path"]).read())
        chk.violation(desc, replay, key=r.get("known"))
        chk.sample("accepted negative probe: %s%s" % (r["id"], " (known finding)" if r.get("known") else ""))
    # ---- synthesised probes for a callback signature that fails the checker ------------------------
    bad_cbs = [k for k, v in rep.get("callbacks", []) if v != "true"]
    if bad_cbs and not any(not v.get("key") for v in chk.viols):
        found = _synthesise_callback_escapes(chk, host, bad_cbs)
        chk.cov["synthesised_callback_probes"] = found
    if offenders:
        chk.obligation("C12: offending items found by evaluating the checkers per item", False, "\n".join(offenders))
    # run-time side of the dynamic-root re-branding: a handle of a DEAD arena must not be re-branded by a later arena
    # whose set reuses the dead set's address (harness/src/stale.rs, shared with C14 / C20)
    try:
        from props import core
        core.stale_handle_scenarios(chk, "C12")
    except Exception as e:  # pragma: no cover
        chk.notes.append("stale-handle scenarios not run: %s" % e)
    for pid in list(res)[:6]:
        chk.sample("%s: %s" % (pid, verdicts[pid]))
    chk.cov["traces_validated_against_impl"] = len(res)


_SYNTH = """// synthesised by scripts/props/c12.py for the callback-taking method `%(name)s`, whose signature no longer
// passes ModelTypes.callback_ok: a value carrying the brand is still held after the callback returned.
use gc_arena::{Arena, Collect, Gc, Rootable};

#[derive(Collect)]
#[collect(no_drop)]
struct Root<'gc> {
    ptr: Gc<'gc, i32>,
}

fn main() {
    let mut arena = Arena::<Rootable![Root<'_>]>::new(|mc| Root { ptr: Gc::new(mc, 7) });
    let escaped = arena.%(name)s(|_mc, root| %(body)s);
    let _still_held_outside_the_callback = &escaped;
}
"""


def _synthesise_callback_escapes(chk, host, names):
    """For each failing callback method try the three canonical escapes (the pointer, the `&'gc T`, the
    context). An accepted program is a concrete violation; the same programs are rejected for
    `mutate` on the unchanged tree (probes esc_return_gc_from_mutate / _ref_ / esc_return_mutation)."""
    out = []
    outdir = os.path.join(sf.API_BUILD, "probes", "c12-synth-%d" % os.getpid())
    for n in names:
        if not re.match(r"^[A-Za-z_][A-Za-z0-9_]*$", n):
            continue
        for tag, body in (("gc", "root.ptr"), ("ref", "Gc::as_ref(root.ptr)"), ("ctx", "_mc")):
            src = _SYNTH % {"name": n, "body": body}
            r = sf.compile_probe("synth_%s_%s.rs" % (n, tag), host, outdir, src_text=src)
            out.append("%s/%s: %s" % (n, tag, "ACCEPTED" if r["accepted"] else "rejected " + ",".join(r["codes"])))
            if r["accepted"]:
                chk.violation("C12: rustc ACCEPTS a safe program in which the value `%s` produced inside the `%s` callback is still held "
                              "after the callback returned (the callback signature lets the brand escape)" % (body, n),
                              "// probe synth_%s_%s.rs -- compile with: rustc --edition 2024 --extern gc_arena=<rlib of /repo>\n%s" % (n, tag, src))
    import shutil
    shutil.rmtree(outdir, ignore_errors=True)
    return out


def replay(path):
    """Re-compile (and run, if accepted) the probe stored in a replay file against the current /repo."""
    txt = open(path).read()
    if re.search(r"(?m)^stalehandle: ", txt):
        from props import core
        return core.replay("C12", path)
    if "no concrete failing input was found" in txt[:200]:
        print(txt)   # names the theorem / correspondence that no longer checks; nothing to re-run
        return 0
    m = re.search(r"(?m)^// probe (\S+)", txt)
    src = txt[txt.index("// probe "):] if "// probe " in txt else txt
    okh, texth, host = sf.host_build()
    if not okh:
        print("crate does not build:\n" + texth)
        return 1
    name = os.path.splitext(os.path.basename(m.group(1)))[0] if m else "replay"
    r = sf.compile_probe(name + ".rs", host, os.path.join(sf.API_BUILD, "replay"), src_text=src)
    print("required: rejected by rustc.  observed: %s %s" % ("ACCEPTED" if r["accepted"] else "rejected", r["codes"]))
    for e in r["errors"]:
        print("  " + e)
    if r["accepted"]:
        rc, out = sf.run_exe(r["exe"])
        print("run: exit code %s\n%s" % (rc, out))
        return 1
    return 0
