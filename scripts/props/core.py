"""Shared machinery of the collector-core properties (C01-C11, C14, C20):
  1. full .vo build of /verif/coq (model + proofs + Props), Print Assumptions audit;
  2. extraction + OCaml replay driver;
  3. harness built against /repo's current working tree (hooks on);
  4. lock-step correspondence on generated + corpus scripts, cross-check of the extraction with
     vm_compute on a sample, property oracles on the implementation's history.
Results of 3-4 are cached per (content hash of /repo, hash of our own sources, tier, seed) so that
checking several properties on the same tree pays for the run once.
"""
import glob, json, os, re, shutil, sys, time
from collections import Counter

sys.path.insert(0, os.path.dirname(os.path.dirname(os.path.abspath(__file__))))
import vlib
import lockstep

COQ = os.path.join(vlib.VERIF, "coq")
LOGICAL = "GA"
OCAML_OUT = os.path.join(vlib.BUILD, "ocaml")
HARNESS = os.path.join(vlib.VERIF, "harness")
CORPUS = os.path.join(vlib.VERIF, "corpus")
SETUP_KEY = "core"

CORE_PROPS = ["C01", "C02", "C03", "C04", "C05", "C06", "C07", "C08", "C09", "C10", "C11", "C14", "C20"]

TRUSTED = [
    "Coq 8.16.1 kernel (coqc; vm_compute used for in-Coq evaluation of traces); no native_compute",
    "extraction with ExtrOcamlBasic only (no Extract Constant), OCaml 4.13.1 and the parsing/printing replay driver ocaml/driver.ml",
    "the Rust correspondence harness (op interpreter, node types and their Collect impls, tracking allocator) and the read-only snapshot hooks in /repo (cfg gc_arena_verif)",
    "modelled, not verified: payload destructors do not panic; f64 arithmetic (exact on the dyadic pacing used; otherwise only decisions compared); usize counters do not reach 2^64; Rc/Weak address identity; memory-safety content of the crate's unsafe blocks",
]


def props_file(pid):
    return os.path.join("Props", "%s.v" % pid)


# ------------------------------------------------------------------------------------------
# builds
# ------------------------------------------------------------------------------------------
def coq_project_files():
    files = []
    for sub in ("Model", "Extract", "Proofs", "Props"):
        for f in sorted(glob.glob(os.path.join(COQ, sub, "*.v"))):
            if os.path.basename(f) == "Extract.v":
                continue
            files.append(os.path.relpath(f, COQ))
    return files


def write_coqproject():
    txt = "-Q . %s\n" % LOGICAL + "\n".join(coq_project_files()) + "\n"
    p = os.path.join(COQ, "_CoqProject")
    if not os.path.exists(p) or open(p).read() != txt:
        open(p, "w").write(txt)


def build_coq(targets=None, timeout=2400):
    write_coqproject()
    return vlib.coq_make(COQ, targets, timeout=timeout)


def build_driver():
    """Re-extract and rebuild the replay driver when the model or the driver changed."""
    key = vlib.tree_hash([os.path.join(COQ, "Model"), os.path.join(COQ, "Extract"), os.path.join(vlib.VERIF, "ocaml")])
    stamp = os.path.join(OCAML_OUT, "stamp")
    drv = os.path.join(OCAML_OUT, "driver")
    if os.path.exists(drv) and os.path.exists(stamp) and open(stamp).read() == key:
        return True, ""
    rc, out = vlib.run(["sh", os.path.join(vlib.VERIF, "ocaml", "build.sh")], timeout=600)
    if rc == 0:
        open(stamp, "w").write(key)
    return rc == 0, out


def harness_key():
    return vlib.repo_hash() + "-" + vlib.tree_hash([os.path.join(HARNESS, "src"), os.path.join(HARNESS, "Cargo.toml")])


def build_harness(release=False):
    tdir = os.path.join(vlib.BUILD, "harness")
    ok, out, bindir = vlib.cargo_build(HARNESS, tdir, release=release, hooks=True)
    return ok, out, os.path.join(bindir, "ga-harness")


def audit(pid):
    """Compile Props/<pid>.v capturing Print Assumptions. Returns list of (theorem, ok, detail)."""
    pf = props_file(pid)
    if not os.path.exists(os.path.join(COQ, pf)):
        return [("Props/%s.v exists" % pid, False, "missing")]
    ok, res, raw = vlib.coq_print_assumptions(COQ, LOGICAL, pf)
    if not ok:
        return [("%s compiles" % pf, False, raw[-3000:])]
    out = []
    for thm, axs in res.items():
        bad = [a for a in axs if a not in vlib.ALLOWED_AXIOMS]
        out.append(("%s:%s [assumptions: %s]" % (pf, thm, ", ".join(axs) if axs else "closed under the global context"),
                    not bad, "disallowed assumptions: %s" % bad if bad else ""))
    if not res:
        out.append(("%s states at least one theorem with Print Assumptions" % pf, False, raw[-1000:]))
    return out


_forbidden_cache = None


def forbidden():
    global _forbidden_cache
    if _forbidden_cache is None:
        _forbidden_cache = vlib.coq_forbidden_scan(COQ)
    return _forbidden_cache


# ------------------------------------------------------------------------------------------
# lock-step runs
# ------------------------------------------------------------------------------------------
def profiles(tier, seed):
    if tier == "quick":
        return [
            ("base", ["--seed", str(seed), "--scripts", "40", "--len", "300", "--faults"]),
            ("multi", ["--seed", str(seed + 1), "--scripts", "16", "--len", "300", "--faults", "--multi"]),
            ("defpace", ["--seed", str(seed + 2), "--scripts", "8", "--len", "250", "--default-pacing"]),
            ("burst", ["--seed", str(seed + 3), "--scripts", "6", "--len", "500", "--burst", "--max-cb", "20"]),
            ("long", ["--seed", str(seed + 4), "--scripts", "4", "--len", "1500", "--faults"]),
        ]
    return [
        ("base", ["--seed", str(seed), "--scripts", "600", "--len", "400", "--faults"]),
        ("multi", ["--seed", str(seed + 1), "--scripts", "250", "--len", "400", "--faults", "--multi"]),
        ("defpace", ["--seed", str(seed + 2), "--scripts", "100", "--len", "300", "--default-pacing"]),
        ("burst", ["--seed", str(seed + 3), "--scripts", "60", "--len", "800", "--burst", "--max-cb", "30"]),
        ("long", ["--seed", str(seed + 4), "--scripts", "40", "--len", "4000", "--faults", "--multi"]),
        ("nofault", ["--seed", str(seed + 5), "--scripts", "300", "--len", "400"]),
    ]


def corpus_text():
    parts = []
    for f in sorted(glob.glob(os.path.join(CORPUS, "*.script"))):
        parts.append("#script corpus/%s\n%s\n" % (os.path.basename(f), open(f).read()))
    return "\n".join(parts)


def run_lockstep(tier, seed, force=False):
    """Returns the result dict (cached)."""
    okd, outd = build_driver()
    if not okd:
        return {"fatal": "extraction / OCaml driver build failed:\n" + outd[-4000:]}
    key = "%s-%s-%s-%d" % (harness_key(), vlib.tree_hash([os.path.join(COQ, "Model"), os.path.join(COQ, "Extract"),
                                                         os.path.join(vlib.VERIF, "ocaml"), os.path.join(vlib.VERIF, "scripts", "lockstep.py"),
                                                         os.path.abspath(__file__), CORPUS]), tier, seed)
    cdir = os.path.join(vlib.BUILD, "cache", key)
    rfile = os.path.join(cdir, "result.json")
    if os.path.exists(rfile) and not force:
        return json.load(open(rfile))
    # drop stale caches (disk is limited)
    croot = os.path.join(vlib.BUILD, "cache")
    if os.path.isdir(croot):
        for d in os.listdir(croot):
            if d != key and os.path.getmtime(os.path.join(croot, d)) < time.time() - 3600:
                shutil.rmtree(os.path.join(croot, d), ignore_errors=True)
    os.makedirs(cdir, exist_ok=True)
    t0 = time.time()
    builds = [("debug", False)] + ([("release", True)] if tier == "thorough" else [])
    res = {"key": key, "scripts": 0, "lines": 0, "divergences": [], "violations": [], "coverage": {}, "alarms": 0,
           "op_histogram": {}, "builds": [b for b, _ in builds], "samples": [], "fatal": None, "vm_crosscheck": None}
    cover = Counter()
    ophist = Counter()
    drv = os.path.join(OCAML_OUT, "driver")
    for bname, rel in builds:
        okh, outh, hbin = build_harness(release=rel)
        if not okh:
            res["fatal"] = "the correspondence harness does not build against the current /repo (%s):\n%s" % (bname, outh[-4000:])
            break
        runs = [(n, ["gen"] + a) for n, a in profiles(tier, seed)]
        for name, args in runs + [("corpus", None)]:
            if args is None:
                # corpus: one process per script, so that a script on which the implementation corrupts memory and
                # dies does not take the rest of the corpus with it
                files = sorted(glob.glob(os.path.join(CORPUS, "*.script")))
                if not files:
                    continue
                parts, rc = [], 0
                for f in files:
                    sname = "corpus/" + os.path.basename(f)
                    rc1, t1 = vlib.run([hbin, "run"], timeout=300, input="#script %s\n%s\n" % (sname, open(f).read()))
                    if rc1 != 0:
                        kept, tail = salvage(t1)
                        res["divergences"].append({"script": "%s/%s" % (bname, sname), "line": -1, "components": ["op"],
                                                   "detail": "the harness process died (exit %d) while running a corpus script against the "
                                                             "implementation: %s" % (rc1, tail[-800:])})
                        fatal = fatal_script(kept)
                        if fatal:
                            fname, fops = fatal
                            had_panic = any(o.split()[:1] == ["panic"] or (o.split()[:1] == ["collect"] and len(o.split()) > 3) for o in fops)
                            for prop in ["C01", "C04"] + (["C11"] if had_panic else []):
                                res["violations"].append({
                                    "property": prop, "key": None,
                                    "desc": "the implementation corrupts memory: the process running this script against the real crate "
                                            "died with exit %d (%s) inside its last operation `%s`" % (rc1, tail.strip().split("\n")[-1][:120] if tail.strip() else "no message", fops[-1]),
                                    "script": "%s/%s" % (bname, sname), "line": len(fops) - 1, "script_text": "\n".join(fops)})
                        t1 = kept
                    parts.append(t1)
                itext = "\n".join(parts)
            else:
                rc, itext = vlib.run([hbin] + args, timeout=3000)
            # The harness streams every trace line as it is produced. If the crate under test corrupts memory and
            # the process dies, the scripts finished so far and the prefix of the fatal one are kept (the destructor
            # events that explain the crash precede it), the crash is recorded as a broken correspondence, and the
            # remaining scripts of the profile are run by a fresh process.
            crashes = 0
            while rc != 0 and args is not None and crashes < 6:
                crashes += 1
                kept, tail = salvage(itext)
                nscripts = int(args[args.index("--scripts") + 1])
                first = int(args[args.index("--first") + 1]) if "--first" in args else 0
                done = first + kept.count("\n#script ") + (1 if kept.startswith("#script ") else 0)
                res["divergences"].append({"script": "%s/%s" % (bname, name), "line": -1, "components": ["op"],
                                           "detail": "the harness process died (exit %d) while running a script against the "
                                                     "implementation: %s" % (rc, tail[-800:])})
                fatal = fatal_script(kept)
                if fatal:
                    fname, fops = fatal
                    had_panic = any(o.split()[:1] == ["panic"] or (o.split()[:1] == ["collect"] and len(o.split()) > 3) for o in fops)
                    for prop in ["C01", "C04"] + (["C11"] if had_panic else []):
                        res["violations"].append({
                            "property": prop, "key": None,
                            "desc": "the implementation corrupts memory: the process running this script against the real crate "
                                    "died with exit %d (%s) inside its last operation `%s`" % (rc, tail.strip().split("\n")[-1][:120] if tail.strip() else "no message", fops[-1]),
                            "script": "%s/%s/%s" % (bname, name, fname), "line": len(fops) - 1, "script_text": "\n".join(fops)})
                if done >= nscripts:
                    itext, rc = kept, 0
                    break
                a2 = [x for x in args]
                if "--first" in a2:
                    a2[a2.index("--first") + 1] = str(done)
                else:
                    a2 += ["--first", str(done)]
                rc, more = vlib.run([hbin] + a2, timeout=3000)
                itext, args = kept + "\n" + more, a2
            # the harness' panic hook prints unexpected panics on stderr (merged here); they are reported through
            # `#alarm` lines of the script they belong to, so drop the raw lines before the model replays the trace
            itext = "\n".join(l for l in itext.split("\n") if not l.startswith("PANIC:") and not l.startswith("#next"))
            tf = os.path.join(cdir, "%s-%s.impl" % (bname, name))
            open(tf, "w").write(itext)
            if rc != 0:
                res["divergences"].append({"script": "%s/%s" % (bname, name), "line": -1,
                                           "components": ["op"], "detail": "harness exited with %d: %s" % (rc, itext[-1500:])})
                continue
            rc2, mtext = vlib.run([drv], timeout=1200, input=itext)
            open(os.path.join(cdir, "%s-%s.model" % (bname, name)), "w").write(mtext)
            if rc2 != 0:
                res["divergences"].append({"script": "%s/%s" % (bname, name), "line": -1,
                                           "components": ["op"], "detail": "model driver failed: %s" % mtext[-1500:]})
                continue
            si, sm = lockstep.parse_trace(itext), lockstep.parse_trace(mtext)
            for a, b in zip(si, sm):
                res["scripts"] += 1
                res["lines"] += len(a["lines"])
                res["alarms"] += len(a["alarms"])
                for l in a["lines"]:
                    ophist[" ".join(l.op[:2]) if l.op and l.op[0] in ("m", "collect") and len(l.op) > 2 and l.op[0] == "m" else (l.op[0] + ":" + (l.op[2] if l.op[0] in ("collect", "begin") else "")) if l.op else "?"] += 1
                d = lockstep.compare_script(a, b)
                if d is not None:
                    k, diffs = d
                    res["divergences"].append({
                        "script": "%s/%s/%s" % (bname, name, a["name"]), "line": k,
                        "components": sorted(set(c for c, _, _ in diffs)),
                        "detail": "\n".join("%s:\n  impl : %s\n  model: %s" % (c, x, y) for c, x, y in diffs)[:3000],
                        "script_text": "\n".join(l.optext for l in a["lines"][:k + 1]),
                    })

                def viol(prop, fkey, desc, k, _a=a, _bn=bname, _n=name):
                    res["violations"].append({"property": prop, "key": fkey, "desc": desc,
                                              "script": "%s/%s/%s" % (_bn, _n, _a["name"]), "line": k,
                                              "script_text": "\n".join(l.optext for l in _a["lines"][:k + 1])})
                lockstep.run_oracles(a, b, viol, cover)
                if len(res["samples"]) < 3 and len(a["lines"]) > 20:
                    res["samples"].append({"script": a["name"], "first_ops": [l.optext for l in a["lines"][:25]]})
    res["coverage"] = dict(cover)
    res["op_histogram"] = dict(ophist)
    # keep the evidence small: de-duplicate violations by (property, key, desc-prefix)
    seen, vs = set(), []
    for v in res["violations"]:
        sig = (v["property"], v["key"], re.sub(r"\d+", "N", v["desc"])[:80])
        if sig in seen:
            continue
        seen.add(sig)
        vs.append(v)
    res["violations_total"] = len(res["violations"])
    res["violations"] = vs[:200]
    res["divergences"] = res["divergences"][:50]
    if res["fatal"] is None:
        res["vm_crosscheck"] = vm_crosscheck(cdir, tier)
    res["wall_s"] = round(time.time() - t0, 1)
    json.dump(res, open(rfile, "w"))
    return res


def clean_trace(text):
    return "\n".join(l for l in text.split("\n") if not l.startswith("PANIC:") and not l.startswith("#next"))


def salvage(text):
    """Output of a harness process that died: keep every complete trace line (a `#script` header, comment lines and
    op lines with their five `|`-separated fields); returns (kept text, the unparsable tail)."""
    kept, tail = [], []
    for l in text.split("\n"):
        if l.startswith("#") or l.count(" | ") >= 4 and l.rstrip().endswith("|"):
            kept.append(l)
        elif l.strip():
            tail.append(l)
    return "\n".join(kept), "\n".join(tail)


def fatal_script(kept):
    """(name, ops) of the unfinished last script of a died harness: its completed ops plus the announced (`#next`)
    operation that never returned."""
    name, ops, nxt, done = None, [], None, True
    for l in kept.split("\n"):
        if l.startswith("#script"):
            name, ops, nxt, done = l[len("#script"):].strip(), [], None, False
        elif l.startswith("#done"):
            done = True
        elif l.startswith("#next"):
            nxt = l[len("#next"):].strip()
        elif l and not l.startswith("#"):
            ops.append(l.split("|")[0].strip())
            nxt = None
    if name is None or done or nxt is None:
        return None
    return name, ops + [nxt]


# ------------------------------------------------------------------------------------------
# cross-check of the extraction: evaluate a sample of scripts inside Coq with vm_compute
# ------------------------------------------------------------------------------------------
def coq_nat(s):
    return s


def coq_opt(s):
    return "None" if s == "-" else "(Some %s)" % s


def coq_q(s):
    if "/" in s:
        n, d = s.split("/")
    else:
        n, d = s, "1"
    return "(Qmake (%s)%%Z %s%%positive)" % (n, d)


KINDS = {"node": "KNode", "leaf": "KLeaf", "set": "KSet", "lock": "KLock", "once": "KOnce", "struct": "KStruct"}
CBK = {"new": "CNew", "trynew": "CTryNew", "mutate": "CMutate", "mutroot": "CMutateRoot", "maproot": "CMapRoot",
       "trymaproot": "CTryMapRoot", "finalize0": "(CFinalize false)", "finalize1": "(CFinalize true)"}
HOW = {"cd": "HCollectDebt", "md": "HMarkDebt", "fm": "HFinishMarking", "cyd": "HCycleDebt", "fc": "HFinishCycle"}


def coq_op(t):
    o = t.split()
    if o[0] == "begin":
        return "OBegin %s %s" % (o[1], CBK[o[2]])
    if o[0] in ("end", "enderr", "panic"):
        return {"end": "OEnd", "enderr": "OEndErr", "panic": "OPanic"}[o[0]]
    if o[0] == "collect":
        f = "None" if len(o) < 5 else "(Some (%s, %s))" % (o[3], o[4])
        return "OCollect %s %s %s" % (o[1], HOW[o[2]], f)
    if o[0] == "startsweep":
        return "OStartSweep %s %s" % (o[1], "true" if o[2] == "1" else "false")
    if o[0] == "droparena":
        return "ODropArena %s" % o[1]
    if o[0] == "adjust":
        return "OAdjustDebt %s %s" % (o[1], coq_q(o[2]))
    if o[0] == "pacing":
        return "OSetPacing %s (mkPacing %s %s%%N %s %s %s %s %s)" % (o[1], coq_q(o[2]), o[3], coq_q(o[4]), coq_q(o[5]), coq_q(o[6]), coq_q(o[7]), coq_q(o[8]))
    if o[0] == "cloneh":
        return "OCloneH %s %s" % (o[1], o[2])
    if o[0] == "droph":
        return "ODropH %s" % o[1]
    assert o[0] == "m", t
    m, a = o[1], o[2:]
    table = {
        "alloc": lambda: "MAlloc %s %s %s %s" % (a[0], KINDS[a[1]], a[2], a[3]),
        "loadroot": lambda: "MLoadRoot %s %s" % (a[0], a[1]),
        "loadrootw": lambda: "MLoadRootW %s %s" % (a[0], a[1]),
        "load": lambda: "MLoad %s %s %s" % (a[0], a[1], a[2]),
        "loadw": lambda: "MLoadW %s %s %s" % (a[0], a[1], a[2]),
        "store": lambda: "MStore %s %s %s" % (a[0], a[1], coq_opt(a[2])),
        "storew": lambda: "MStoreW %s %s %s" % (a[0], a[1], coq_opt(a[2])),
        "onceinit": lambda: "MOnceInit %s %s" % (a[0], a[1]),
        "rootset": lambda: "MRootSet %s %s" % (a[0], coq_opt(a[1])),
        "rootsetw": lambda: "MRootSetW %s %s" % (a[0], coq_opt(a[1])),
        "downgrade": lambda: "MDowngrade %s %s" % (a[0], a[1]),
        "upgrade": lambda: "MUpgrade %s %s" % (a[0], a[1]),
        "isdropped": lambda: "MIsDropped %s" % a[0],
        "barb": lambda: "MBarrierB %s %s" % (a[0], coq_opt(a[1])),
        "barbw": lambda: "MBarrierBW %s %s" % (a[0], a[1]),
        "barf": lambda: "MBarrierF %s %s" % (coq_opt(a[0]), a[1]),
        "barfw": lambda: "MBarrierFW %s %s" % (coq_opt(a[0]), a[1]),
        "rawstore": lambda: "MRawStore %s %s %s" % (a[0], a[1], a[2]),
        "rawstorew": lambda: "MRawStoreW %s %s %s" % (a[0], a[1], a[2]),
        "stash": lambda: "MStash %s %s %s" % (a[0], a[1], a[2]),
        "fetch": lambda: "MFetch %s %s %s" % (a[0], a[1], a[2]),
        "isdead": lambda: "MIsDead %s" % a[0],
        "isdeadw": lambda: "MIsDeadW %s" % a[0],
        "resurrect": lambda: "MResurrect %s" % a[0],
        "resurrectw": lambda: "MResurrectW %s %s" % (a[0], a[1]),
        "move": lambda: "MMove %s %s" % (a[0], a[1]),
        "clear": lambda: "MClear %s" % a[0],
        "clearw": lambda: "MClearW %s" % a[0],
        "ptreq": lambda: "MPtrEq %s %s" % (a[0], a[1]),
        "allocw": lambda: "MAllocWith %s %s [%s] [%s]" % (a[0], KINDS[a[1]], "; ".join(coq_opt(x) for x in a[2:5]),
                                                          "; ".join(coq_opt(x) for x in a[5:7])),
    }
    return "OMicro (%s)" % table[m]()


def vm_crosscheck(cdir, tier):
    """Re-evaluate a sample of scripts with vm_compute inside Coq and compare with the OCaml
    driver's output line by line (validates extraction + driver parsing)."""
    mfiles = sorted(glob.glob(os.path.join(cdir, "debug-*.model")))
    scripts = []
    for mf in mfiles:
        scripts += lockstep.parse_trace(open(mf).read())
    # take short scripts / prefixes: vm_compute cost is dominated by string rendering
    budget = 12 if tier == "quick" else 60
    step = max(1, len(scripts) // budget)
    sample = scripts[::step][:budget]
    if not sample:
        return {"scripts": 0, "lines": 0, "mismatches": 0}
    work = os.path.join(cdir, "vm")
    os.makedirs(work, exist_ok=True)
    shards = [sample[i::4] for i in range(4)]
    total_lines, mism, detail = 0, 0, ""
    import concurrent.futures as cf

    def do(i_sh):
        i, sh = i_sh
        if not sh:
            return 0, 0, ""
        body = ["From Coq Require Import String List ZArith QArith.", "From GA Require Import Model.Mutator Extract.Render.",
                "Import ListNotations.", "Local Open Scope nat_scope.", "Local Open Scope string_scope."]
        exp = []
        for j, s in enumerate(sh):
            lines = s["lines"][:120]
            ops = ";\n  ".join(coq_op(l.optext) for l in lines)
            body.append("Definition s%d : list op := [\n  %s ]." % (j, ops))
            body.append("Eval vm_compute in (render_run world_init s%d)." % j)
            exp.append([l.raw.split(" | ", 1)[1] for l in lines])
        vf = os.path.join(work, "cases%d.v" % i)
        open(vf, "w").write("\n".join(body) + "\n")
        rc, out = vlib.run(["coqc", "-q", "-noglob", "-Q", COQ, LOGICAL, vf], timeout=900, cwd=work)
        if rc != 0:
            return 0, 1, "coqc failed on %s: %s" % (vf, out[-800:])
        # each Eval prints  = ["..."; "..."] : list string
        got = re.findall(r'"((?:[^"]|"")*)"', out)
        flat = [x for e in exp for x in e]
        got = [g.replace('""', '"') for g in got]
        # Coq wraps long strings across lines inside the literal: normalise whitespace
        norm = lambda t: re.sub(r"\s+", " ", t).strip()
        bad = 0
        msg = ""
        if len(got) != len(flat):
            return len(flat), 1, "vm_compute produced %d strings, expected %d" % (len(got), len(flat))
        for g, f in zip(got, flat):
            if norm(g) != norm(f):
                bad += 1
                if not msg:
                    msg = "vm: %s\nml: %s" % (g, f)
        return len(flat), bad, msg

    with cf.ThreadPoolExecutor(max_workers=4) as ex:
        for n, b, m in ex.map(do, enumerate(shards)):
            total_lines += n
            mism += b
            detail = detail or m
    return {"scripts": len(sample), "lines": total_lines, "mismatches": mism, "detail": detail[:1500]}


# ------------------------------------------------------------------------------------------
# the per-property check
# ------------------------------------------------------------------------------------------
def setup():
    ok, out = build_coq()
    if not ok:
        vlib.log(out[-6000:])
        raise RuntimeError("Coq build of /verif/coq failed")
    ok, out = build_driver()
    if not ok:
        raise RuntimeError("driver build failed: " + out[-3000:])
    ok, out, _ = build_harness(False)
    if not ok:
        raise RuntimeError("harness build failed: " + out[-3000:])
    run_lockstep("quick", int(os.environ.get("VERIF_SEED", "1") or 1))


def extension_ops(prefix_ops, arenas, variant=0):
    """Ops appended to a diverging prefix when searching for a concrete failing input: leave the
    callback, finish the cycle twice, dereference what is reachable, query weak pointers, drop."""
    ops = []
    depth = 0
    cbkind = None
    for o in prefix_ops:
        t = o.split()
        if t and t[0] == "begin":
            depth = 1
            cbkind = t[2] if len(t) > 2 else None
        elif t and t[0] in ("end", "enderr", "panic"):
            depth = 0
    if depth and variant == 1:
        # the callback stores a fresh object into the root (where the callback kind allows it) and then PANICS
        ops += ["m alloc 5 node 1 0", "m rootset 0 5", "m alloc 4 leaf 0 0", "m rootset 1 4", "panic"]
        depth = 0
    if depth:
        # complete the adoption that the diverging barrier was meant to license
        t = prefix_ops[-1].split() if prefix_ops else []
        if len(t) >= 4 and t[0] == "m" and t[1] in ("barb", "barf") and t[2] != "-" and t[3] != "-":
            for sl in range(3):
                ops.append("m rawstore %s %d %s" % (t[2], sl, t[3]))
        if len(t) >= 4 and t[0] == "m" and t[1] in ("barbw", "barfw") and t[2] != "-":
            for sl in range(3):
                ops.append("m rawstorew %s %d %s" % (t[2], sl, t[3]))
        # an upgraded pointer "may be used and stored like any other Gc": store it, through the barriered store
        # API, into the objects held by the root
        if len(t) >= 4 and t[0] == "m" and t[1] == "upgrade":
            spare = [r for r in range(6) if str(r) != t[2]][-1]
            for i in range(4):
                ops += ["m loadroot %d %d" % (spare, i), "m store %d 0 %s" % (spare, t[2]), "m store %d 1 %s" % (spare, t[2])]
        # a child-only forward barrier licenses adoption by ANY parent, a parent-only backward barrier adoption
        # of ANY child: try every register as the other side
        if len(t) >= 4 and t[0] == "m" and t[1] == "barf" and t[2] == "-":
            for preg in range(6):
                if str(preg) != t[3]:
                    ops.append("m rawstore %d %d %s" % (preg, preg % 2, t[3]))
            # ... in particular by the (possibly already traced) objects held by the root and their children
            spare = [r for r in range(6) if str(r) != t[3]][-2:]
            for i in range(4):
                ops += ["m loadroot %d %d" % (spare[0], i), "m rawstore %d 0 %s" % (spare[0], t[3]),
                        "m load %d %d 1" % (spare[1], spare[0]), "m rawstore %d 0 %s" % (spare[1], t[3])]
        if len(t) >= 4 and t[0] == "m" and t[1] == "barfw" and t[2] == "-":
            for preg in range(6):
                ops.append("m rawstorew %d %d %s" % (preg, preg % 2, t[3]))
        if len(t) >= 4 and t[0] == "m" and t[1] == "barb" and t[3] == "-":
            for creg in range(6):
                if str(creg) != t[2]:
                    ops.append("m rawstore %s %d %d" % (t[2], creg % 3, creg))
        ops.append("end")
    for a in arenas:
        ops += ["collect %d fc" % a, "collect %d fc" % a, "begin %d mutate" % a]
        for i in range(4):
            ops += ["m loadroot 0 %d" % i, "m load 1 0 0", "m load 2 0 1", "m load 3 1 0", "m loadw 0 0 0", "m upgrade 4 0",
                    "m loadrootw 1 %d" % i, "m upgrade 5 1", "m isdropped 1"]
        ops += ["end", "collect %d fc" % a]
    for a in arenas:
        ops.append("droparena %d" % a)
    return ops


# a concrete failure of one of these, on the extension of a trace where this property's tie broke,
# is a failure of this property (e.g. an adopted child destructed while reachable breaks C06)
RELATED = {
    "C05": ("C05", "C01"),
    "C06": ("C06", "C01", "C05"),
    "C14": ("C14", "C01"),
    "C11": ("C11", "C01", "C02", "C03", "C04", "C05", "C10"),
    "C20": ("C20", "C01", "C04"),
    "C07": ("C07", "C01"),
    "C02": ("C02", "C01", "C04"),
    "C09": ("C09", "C10"),
    "C10": ("C10", "C09"),
    "C04": ("C04", "C11"),
    "C08": ("C08", "C01", "C07"),
}


def search_failing_input(pid, divergences, budget=40):
    """For the first few divergences relevant to pid: extend the diverging prefix and run the
    property oracles on the implementation. Returns a list of violation dicts (possibly empty)."""
    found = []
    okh, outh, hbin = build_harness(False)
    if not okh:
        return found
    drv = os.path.join(OCAML_OUT, "driver")
    tried = 0
    for d in divergences:
        if tried >= budget or "script_text" not in d:
            break
        tried += 1
        prefix = [l for l in d["script_text"].split("\n") if l.strip()]
        # which arenas exist at the divergence: collect from begin/new and droparena ops
        alive = set()
        for o in prefix:
            t = o.split()
            if t[0] == "begin" and t[2] in ("new", "trynew"):
                alive.add(int(t[1]))
            if t[0] == "droparena":
                alive.discard(int(t[1]))
        for variant in (0, 1):
            if found:
                break
            script = prefix + extension_ops(prefix, sorted(alive), variant)
            rc, itext = vlib.run([hbin, "run"], input="#script ext\n" + "\n".join(script) + "\n", timeout=300)
            itext = clean_trace(itext)
            if rc != 0:
                found.append({"property": pid, "key": None, "desc": "the implementation crashed (exit %d) on the extended diverging script" % rc,
                              "script": d["script"], "line": len(script) - 1, "script_text": "\n".join(script)})
                continue
            rc2, mtext = vlib.run([drv], input=itext, timeout=300)
            si, sm = lockstep.parse_trace(itext), lockstep.parse_trace(mtext)
            for a, b in zip(si, sm):
                def viol(prop, fkey, desc, k, _a=a):
                    # a recorded known finding (fkey set, e.g. F4) observed on the extension is not evidence about pid
                    if fkey is not None and prop != pid:
                        return
                    if prop in RELATED.get(pid, (pid,)) and len(found) < 3:
                        found.append({"property": pid, "key": fkey, "desc": desc + (" [observed through the %s oracle]" % prop if prop != pid else ""),
                                      "script": d["script"] + "+ext", "line": k,
                                      "script_text": "\n".join(l.optext for l in _a["lines"][:k + 1])})
                lockstep.run_oracles(a, b, viol, Counter())
        if found:
            break
    return found


# The collector-core theorems take the object graph from what `Collect::trace` reports (the harness's payload types
# report exactly what they hold).  That the crate's OWN provided impls and its trait-object adapter do so is C16;
# for these properties it is a premise, checked here on the current tree, and a concrete miss found there is a
# failing input of these properties too (which: see the filters).
TRACE_PREMISE = {
    # a strong pointer that tracing misses: a reachable value is destructed / its memory released
    "C01": lambda d: ("does not report" in d and "strong pointer" in d) or "is dead after collection" in d or "while strongly held" in d,
    # ... and is reported dead (is_dead) / destructed although strongly reachable
    "C07": lambda d: ("does not report" in d and "strong pointer" in d) or "is dead after collection" in d or "while strongly held" in d,
    # something reported that is not held strongly (a weak pointer reported as strong): retained garbage
    "C02": lambda d: "does not hold with that strength" in d or "was retained" in d or "was not reclaimed" in d,
    # a weak pointer that tracing misses: the shell it refers to is released under it
    "C05": lambda d: "does not report" in d and "weak pointer" in d,
}


def trace_premise(chk, pid, seed):
    from props import c16
    try:
        pr = c16.premise("quick", seed)
    except Exception as e:  # pragma: no cover
        chk.obligation("premise (C16): provided Collect impls and the dyn adapter trace exactly", False, "premise check failed to run: %s" % e)
        return
    bad_o = [(n, d) for (n, ok, d) in pr["obligations"] if not ok]
    bad_c = [(n, d) for (n, ok, d) in pr["correspondence"] if not ok]
    # Charged to THIS property only when the C16 engine exhibits a concrete container value whose trace is wrong.  A C16
    # proof that merely no longer checks (e.g. a harmless rewrite the translator does not understand) is C16's alarm to
    # raise, not this property's: it is recorded as a note.
    chk.obligation("premise (C16 on the current tree: recording tracer, survival, trait-object cases): no provided Collect impl is observed to "
                   "miss or mis-report a pointer it holds", not pr["violations"],
                   "\n".join(v["desc"][:300] for v in pr["violations"][:4]))
    if bad_o or bad_c:
        chk.notes.append("the C16 theorems / model correspondence do not check on this tree (reported by C16's own check): " +
                         "; ".join(n for n, _ in (bad_o + bad_c)[:4]))
    chk.cov["trace_premise_c16"] = {"obligations_broken": [n for n, _ in bad_o], "correspondence_broken": [n for n, _ in bad_c],
                                    "concrete_violations": len(pr["violations"])}
    chk.evaluations += pr.get("evaluations", 0)
    chk.trusted.append("C16 engine (translator-collect, coq-collect, harness-collect) for the trace-exactness premise")
    sel = TRACE_PREMISE[pid]
    n = 0
    for v in pr["violations"]:
        if sel(v["desc"]) and n < 3:
            n += 1
            chk.violation("%s: %s [trace exactness fails for a provided impl: %s]" % (
                pid, {"C01": "a strongly held pointer is not traced, so its target is collected while reachable",
                      "C07": "a strongly held pointer is not traced, so its target is reported dead and destructed while reachable",
                      "C02": "a pointer that is not strongly held is traced as strong, so its target is retained",
                      "C05": "a weakly held pointer is not traced, so the block it refers to is released under it"}[pid], v["desc"][:300]),
                          v["replay"])


# Panicking payload destructors are outside the Coq model (its destructors are total).  The properties that speak about
# "exactly once" (C04) and about is_dropped / upgrade (C05) are nevertheless checked on the implementation for histories
# in which a destructor unwinds out of a collection call or out of drop(arena): harness/src/droppanic.rs, a deterministic
# enumeration with a model-independent oracle.  (A test, not a proof.)
DROP_PANIC = {
    "C04": lambda d: "destructor ran" in d or "double free" in d or "layout mismatch" in d or "Gc count reads" in d or "keep unwinding" in d or "scenario itself died" in d,
    "C05": lambda d: "upgrade() returned" in d or "is_dropped()" in d,
    # "nothing is destructed twice" after a caught panic (C11 lists trace / callback / constructor panics; a destructor that
    # panics during a collection is "a panic at any point" of its title): only second destructor runs are charged
    "C11": lambda d: ("destructor ran" in d and "ran 0 time" not in d and "ran 1 time" not in d) or "double free" in d or "process died" in d,
}


# Handles that outlive their arena, presented to sets of later arenas that reuse the dead set's ADDRESS (the model has
# no addresses): harness/src/stale.rs, deterministic, model-independent oracle (a test).
STALE_HANDLES = ("C14", "C20")


def run_stale():
    okh, outh, hbin = build_harness(False)
    if not okh:
        return None, "harness does not build: " + outh[-1500:]
    rc, raw = vlib.run([hbin, "stale"], timeout=300)
    viols = [l[5:] for l in raw.splitlines() if l.startswith("VIOL ")]
    summ = None
    for l in raw.splitlines():
        if l.startswith("SUMMARY "):
            summ = dict(kv.split("=") for kv in l.split()[1:])
    if summ is None:
        if viols or rc != 0:
            viols.append("the implementation process died while stale handles were presented (rc=%s): %s" % (rc, raw[-300:]))
            summ = {"trials": "?", "presentations": "?", "address_coincidences": "?", "violations": str(len(viols)), "died": "1"}
        else:
            return None, "stale run failed rc=%s: %s" % (rc, raw[-1500:])
    return (viols, summ), ""


def stale_handle_scenarios(chk, pid):
    res, err = run_stale()
    if res is None:
        chk.correspondence("stale-handle scenarios ran on the implementation", False, err)
        return
    viols, summ = res
    chk.correspondence("stale-handle scenarios ran on the implementation (%s presentations of a dead arena's handle, %s with the dead set's address reused)" % (
        summ.get("presentations"), summ.get("address_coincidences")), True, str(summ))
    chk.cov["stale_handles"] = summ
    if summ.get("address_coincidences") in ("0", None):
        chk.notes.append("stale-handle scenarios: the allocator never reused the dead set's address in this run (the scenario did not reach its target state)")
    try:
        chk.evaluations += int(summ.get("presentations", 0))
    except ValueError:
        pass
    for v in viols[:2]:
        name, _, what = v.partition(" :: ")
        chk.violation("%s: %s [scenario %s]" % (pid, what, name),
                      "# stale-handle scenario (harness/src/stale.rs); replay: python3 scripts/check.py %s --replay <this file>\n"
                      "stalehandle: %s\nobserved: %s\n" % (pid, name, what))


def run_droppanic(release=False):
    okh, outh, hbin = build_harness(release)
    if not okh:
        return None, "harness does not build: " + outh[-1500:]
    rc, raw = vlib.run([hbin, "droppanic"], timeout=300)
    viols, summ, last, nscen = [], None, None, 0
    for l in raw.splitlines():
        if l.startswith("NEXT "):
            last = l[5:].strip()
            nscen += 1
        elif l.startswith("VIOL "):
            name, _, what = l[5:].partition(" :: ")
            viols.append((name, what))
        elif l.startswith("SUMMARY "):
            summ = dict(kv.split("=") for kv in l.split()[1:])
    if (rc != 0 or summ is None) and last is not None:
        # the implementation process died inside a scenario (memory corruption after a double destruction / bad free)
        tail = [x for x in raw.splitlines() if not x.startswith(("NEXT ", "VIOL "))][-3:]
        viols.append((last, "destructor ran / memory was released twice: the process died inside this scenario (rc=%s: %s)" % (rc, " | ".join(tail)[:300])))
        summ = {"scenarios": str(nscen), "violations": str(len(viols)), "destructor_panics_observed": "1", "scenarios_with_leaked_victim_block": "?", "died": "1"}
    if summ is None:
        return None, "droppanic run failed rc=%s: %s" % (rc, raw[-1500:])
    return (viols, summ), ""


def drop_panic_scenarios(chk, pid, tier):
    res, err = run_droppanic(False)
    if res is None:
        chk.correspondence("panicking-destructor scenarios ran on the implementation", False, err)
        return
    viols, summ = res
    chk.correspondence("panicking-destructor scenarios ran on the implementation (%s scenarios, %s destructor panics observed)" % (
        summ.get("scenarios"), summ.get("destructor_panics_observed")), int(summ.get("scenarios", 0)) > 0 and int(summ.get("destructor_panics_observed", 0)) > 0, str(summ))
    chk.cov["drop_panic"] = summ
    chk.notes.append("panicking destructors: %s of %s scenarios leave the block of the object whose destructor panicked unreturned "
                     "(outside the property's quantifier; recorded, not charged)" % (summ.get("scenarios_with_leaked_victim_block"), summ.get("scenarios")))
    chk.evaluations += int(summ.get("scenarios", 0))
    sel = DROP_PANIC[pid]
    seen = set()
    for name, what in viols:
        cls = re.sub(r"\d+", "N", what)[:60]
        if not sel(what) or cls in seen or len(seen) >= 3:
            continue
        seen.add(cls)
        chk.violation("%s: with a destructor that panics (caught by catch_unwind): %s [scenario %s]" % (pid, what, name),
                      "# drop-panic scenario (harness/src/droppanic.rs); replay: python3 scripts/check.py %s --replay <this file>\n"
                      "droppanic: %s\nobserved: %s\n" % (pid, name, what))


def run_core(chk, pid, tier, seed, extra_cover_prefixes=()):
    chk.trusted = list(TRUSTED)
    chk.checker_cmd = "cd /verif/coq && coq_makefile -f _CoqProject -o Makefile && make (full .vo) ; coqc Props/%s.v with Print Assumptions" % pid
    # 1. proofs
    ok, out = build_coq()
    if not ok:
        # name the file that failed
        m = re.findall(r"File \"\./([^\"]+)\", line (\d+)", out)
        chk.obligation("full .vo build of /verif/coq", False, (str(m[-1]) if m else "") + "\n" + out[-3000:])
    else:
        chk.obligation("full .vo build of /verif/coq (model, proofs, Props)", True)
        for name, okk, detail in audit(pid):
            chk.obligation(name, okk, detail)
    hits = forbidden()
    chk.obligation("no Admitted/admit/Axiom/Parameter/Conjecture or disabled checks in /verif/coq", not hits, "\n".join(hits[:20]))
    if tier == "thorough" and ok:
        okc, outc = vlib.coqchk(COQ, LOGICAL, ["GA.Props.%s" % pid], timeout=3000)
        axioms = re.findall(r"(?s)Axioms:(.*)", outc)
        closed = okc and ("<none>" in outc.split("Axioms:")[-1] if "Axioms:" in outc else True)
        chk.obligation("coqchk -o re-checks Props/%s.vo and its dependencies" % pid, okc, outc[-1500:])
        chk.cov["coqchk_axioms"] = (axioms[-1].strip()[:500] if axioms else "n/a")
    # 2. correspondence + oracles
    res = run_lockstep(tier, seed)
    if res.get("fatal"):
        chk.correspondence("lock-step harness/driver available", False, res["fatal"])
        return res
    mine = [d for d in res["divergences"] if any(pid in lockstep.COMPONENT_PROPS.get(c, []) for c in d["components"])]
    chk.correspondence("lock-step: model and implementation agree on every component %s depends on (%d scripts, %d ops)" % (
        pid, res["scripts"], res["lines"]), not mine,
        "\n\n".join("script %s, step %d, components %s\n%s\n--- ops up to the divergence ---\n%s" % (
            d["script"], d["line"], d["components"], d["detail"], d.get("script_text", "")[-3000:]) for d in mine[:3]))
    vm = res.get("vm_crosscheck") or {}
    chk.correspondence("extraction cross-check: vm_compute inside Coq reproduces the OCaml driver's output (%d scripts, %d lines)" % (
        vm.get("scripts", 0), vm.get("lines", 0)), vm.get("mismatches", 1) == 0 and vm.get("lines", 0) > 0, vm.get("detail", ""))
    # violations that match a recorded known finding (key set) do not explain a broken correspondence
    mine_v = [v for v in res["violations"] if v["property"] == pid and v.get("key") is None]
    if mine and not mine_v:
        # the tie to the code is broken for this property: look for a concrete failing input -- first among the
        # scripts of this very run (a failure observed through the oracle of a related property, e.g. a stashed
        # object destructed while reachable for C14), then by extending the diverging scripts
        extra = [dict(v, property=pid, desc=v["desc"] + " [observed through the %s oracle]" % v["property"])
                 for v in res["violations"] if v["property"] in RELATED.get(pid, ()) and v["property"] != pid and v.get("key") is None][:3]
        if not extra:
            extra = search_failing_input(pid, mine)
        chk.cov["failing_input_search"] = {"divergences_extended": min(len(mine), 8), "violations_found": len(extra)}
        res = dict(res)
        res["violations"] = list(res["violations"]) + extra
    for v in res["violations"]:
        if v["property"] == pid:
            chk.violation("%s [script %s, step %d]" % (v["desc"], v["script"], v["line"]),
                          "# replay: python3 scripts/check.py %s --replay <this file>\n%s" % (pid, v["script_text"]), key=v["key"])
    if pid in TRACE_PREMISE:
        trace_premise(chk, pid, seed)
    if pid in DROP_PANIC:
        drop_panic_scenarios(chk, pid, tier)
    if pid in STALE_HANDLES:
        stale_handle_scenarios(chk, pid)
    chk.evaluations = res["lines"] + chk.evaluations
    cov = {k: v for k, v in res["coverage"].items() if k.startswith(pid + ":") or any(k.startswith(p) for p in extra_cover_prefixes)}
    chk.cov["oracle_coverage_cells"] = cov
    chk.cov["op_histogram"] = res["op_histogram"]
    chk.cov["traces_validated_against_impl"] = res["scripts"]
    chk.cov["builds"] = res["builds"]
    chk.cov["lockstep_wall_s"] = res.get("wall_s")
    chk.distinct = res["scripts"]
    chk.rule = ("state-directed random op scripts (mutator micro-ops, all collection entry points, trace/callback panics, "
                "several arenas, dyadic and default pacing) + corpus, each replayed in the extracted model and compared after "
                "every op (outputs, destructor/allocator events, collector snapshot); distinct = scripts (each from its own PRNG state)")
    for s in res["samples"][:2]:
        chk.sample(s)
    chk.assumptions = ["see trusted_base", "the theorems are about the Gallina model in /verif/coq/Model; the lock-step run ties it to /repo's working tree"]
    return res


def replay(pid, path):
    """Re-run a stored op script against the current /repo and the model; print both traces' verdict."""
    txt = open(path).read()
    if re.search(r"(?m)^stalehandle: ", txt):
        res, err = run_stale()
        if res is None:
            print(err)
            return 1
        for v in res[0][:5]:
            print("OBSERVED on the current tree: %s" % v)
        print("summary: %s" % res[1])
        print("violations observed on the current tree: %d" % len(res[0]))
        return 1 if res[0] else 0
    m = re.search(r"(?m)^droppanic: (.*)$", txt)
    if m:
        res, err = run_droppanic(False)
        if res is None:
            print(err)
            return 1
        hits = [(n, w) for (n, w) in res[0] if n == m.group(1).strip()]
        print("scenario: %s" % m.group(1).strip())
        for n, w in hits:
            print("OBSERVED on the current tree: %s" % w)
        print("violations observed on the current tree: %d" % len(hits))
        return 1 if hits else 0
    if re.search(r"(?m)^replay: impl=\S+ features=", txt):
        # a failing input of the trace-exactness premise (a container value): replayed by the C16 engine
        from props import c16
        return c16.replay(path)
    ops = [l for l in txt.split("\n") if l.strip() and not l.startswith("#")]
    okh, outh, hbin = build_harness(False)
    if not okh:
        print("harness does not build:", outh[-2000:])
        return 1
    build_driver()
    rc, raw = vlib.run([hbin, "run"], input="#script replay\n" + "\n".join(ops) + "\n", timeout=600)
    itext = clean_trace(raw)
    if rc != 0:
        kept, tail = salvage(raw)
        f = fatal_script(kept)
        print("VIOLATION-REPLAY property=%s: the implementation process died (exit %d: %s) inside operation `%s` (op %d of the script)" % (
            pid, rc, tail.strip().split("\n")[-1][:160] if tail.strip() else "no message", f[1][-1] if f else "?", len(f[1]) if f else -1))
        print(kept[-3000:])
        return 1
    rc2, mtext = vlib.run([os.path.join(OCAML_OUT, "driver")], input=itext, timeout=600)
    si, sm = lockstep.parse_trace(itext), lockstep.parse_trace(mtext)
    bad = 0
    for a, b in zip(si, sm):
        d = lockstep.compare_script(a, b)
        if d:
            print("DIVERGENCE at step", d[0], d[1])
            bad = 1

        def viol(prop, fkey, desc, k):
            nonlocal bad
            if prop == pid:
                print("VIOLATION-REPLAY property=%s step=%d: %s" % (prop, k, desc))
                bad = 1
        lockstep.run_oracles(a, b, viol, Counter())
        for al in a["alarms"]:
            print("ALARM:", al)
    print(itext[-3000:])
    return bad
