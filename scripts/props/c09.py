"""C09: see DESIGN.md section 5. Collector-core property: theorems in coq/Props/C09.v, tie by lock-step."""
from props import core

SETUP_KEY = "coq-float"     # the core engine itself is set up by C01 (same machinery); this adds /verif/coq-float


def setup():
    from props import c09f
    bad = [(n, d) for n, ok, d in c09f.obligations() if not ok]
    if bad:
        raise RuntimeError("coq-float: " + str(bad)[:3000])


def run(chk, tier, seed):
    core.run_core(chk, "C09", tier, seed)
    # f64 part: on the dyadic grid the binary64 evaluation of allocation_debt / the wake-up amount is exact and equals
    # the rational model's value (Flocq; /verif/coq-float, theorems C09F_*)
    from props import c09f
    for name, ok, detail in c09f.obligations():
        chk.obligation(name, ok, detail)
    chk.trusted.append("f64 part (coq-float): binary64 arithmetic is modelled as exact real arithmetic followed by Flocq's "
                       "round-to-nearest-even after every operation (overflow / NaN / infinities excluded by the grid bounds, "
                       "not modelled); axioms (Coq standard library only): " + ", ".join(sorted(a for a in c09f.ALLOWED if "." in a and not a.startswith("Coq."))))


def replay(path):
    return core.replay("C09", path)
