"""C18 — builders: abandoning or completing an allocation is clean at every stage.

Proof: /verif/coq-layout (Props/C18.v) — state machine of the four builder kinds; theorems for
every length n, every abandonment point j < n (and completion, j = n), every element
constructor, plus a trace-shape theorem for every sequence of builder operations.  The block
layout a builder frees is the one C17's model computes.

Tie to the source, checked on every run: the Rust harness runs every builder kind x every
abandonment point (before header, after header, after j of n elements for all j < n <= 12 plus
sampled large n, completion, wrong-length copy_slice / copy_str, unsafe assume_init, the
`Static` unwrapping paths) x element / header types with and without destructors, zero-sized and
over-aligned, and records the ordered allocator / destructor / panic events, total_gc_count and
allocation_debt deltas, chain membership (verification hooks) and the contents read back.  The
Coq model must reproduce every line; independent of the model the harness applies the property's
oracle (VIOL lines).
"""
import os, random, sys, time

sys.path.insert(0, os.path.join(os.path.dirname(os.path.abspath(__file__)), "..", "..", "harness-layout"))
import vlib
import layout_common as lc

SETUP_KEY = lc.SETUP_KEY


def setup():
    lc.setup()


TRUSTED = [
    "Coq 8.16.1 kernel (coqc; coqchk in the thorough tier); vm_compute for the generated sample table",
    "extraction (ExtrOcamlBasic only) + OCaml driver coq-layout/Extract/driver.ml, cross-checked on every run by "
    "re-evaluating a seeded sample of the same scenarios inside Coq",
    "Rust harness /verif/harness-layout/src/bin/builders.rs: destructor/trace tokens, tracking allocator, ordered event "
    "log, catch_unwind; read-only verification hooks (cfg gc_arena_verif) for chain membership only",
    "allocation_debt is compared as an exact f64 difference of integer-valued quantities in the Sleep phase",
    "modelled, not verified: Rust drop order of `SliceWithHeader { header, slice }` (header first, elements in index "
    "order) — observed by the harness on every run; payload destructors do not panic; raw writes through "
    "slice_ptr()/header_ptr() before an unsafe assume_init are the caller's responsibility (the builder does not track them)",
]


def _report_viols(chk, out, what, seed, tier, limit=6):
    n = 0
    for l in out.split("\n"):
        if l.startswith("VIOL "):
            n += 1
            if n <= limit:
                chk.violation("C18 %s: %s" % (what, l[5:]),
                              "harness: %s\nseed=%d tier=%s repo=%s\n%s\n(re-run: python3 scripts/check.py C18 --tier %s)"
                              % (what, seed, tier, vlib.REPO, l, tier))
    return n


def run(chk, tier, seed):
    rng = random.Random(seed * 104729 + 18)
    thorough = tier == "thorough"
    chk.trusted = TRUSTED
    chk.rule = ("one case = one builder scenario (kind, header/element layout + destructor class, length n, "
                "abandonment point / completion / copy length, plain or Static path); distinct = distinct scenario tuples")
    chk.checker_cmd = ("make (coq_makefile, full .vo) in /verif/coq-layout; coqc Props/C18.v with Print Assumptions; "
                       "coqc Gen/C18Sample.v" + ("; coqchk -o -silent" if thorough else ""))

    # ---- 1. proofs ---------------------------------------------------------------------------
    t0 = time.time()
    ok, out = lc.ensure_coq()
    chk.obligation("coq-layout builds (full .vo)", ok, out[-4000:])
    if ok:
        lc.audit(chk, os.path.join("Props", "C18.v"), "C18")
    okm, outm = lc.ensure_model()
    chk.correspondence("model extraction + driver build", okm, outm[-3000:])
    chk.cov["t_proofs_s"] = round(time.time() - t0, 1)
    if not (ok and okm):
        return

    # ---- 2. harness ---------------------------------------------------------------------------
    t0 = time.time()
    builds = [("debug", False)] + ([("release", True)] if thorough else [])
    bindirs = {}
    for name, rel in builds:
        okb, outb, bindir, _, _ = lc.build(release=rel, thorough_grid=thorough)
        chk.correspondence("harness builds against %s (%s)" % (vlib.REPO, name), okb, outb[-4000:])
        if okb:
            bindirs[name] = bindir
    chk.cov["t_build_s"] = round(time.time() - t0, 1)
    if "debug" not in bindirs:
        return

    # platform constants for the model instance come from the twin of the source
    rc, tw_out, _ = lc.run_bin(bindirs["debug"], "tagtwin", ["--seed", seed, "--n", 1], timeout=120)
    plat = None
    for l in tw_out.split("\n"):
        if l.startswith("PLATFORM "):
            d = lc.kv(l)
            plat = (int(d["usize_bits"]), int(d["hdr_size"]), lc.log2(d["hdr_align"]), lc.log2(d["vtable_align"]))
    chk.correspondence("platform constants measured (twin of src/gc_ptr.rs)", plat is not None, tw_out[-1000:])
    if plat is None:
        return
    plat_hdr = "PLAT %d %d %d %d" % plat
    chk.cov["platform"] = {"usize_bits": plat[0], "hdr_size": plat[1], "hdr_align_log": plat[2], "vtable_align_log": plat[3]}

    b_lines_debug, bad_debug = [], []
    for name, bindir in bindirs.items():
        rc, b_out, dt = lc.run_bin(bindir, "builders", ["--tier", tier, "--seed", seed], timeout=1500 if thorough else 600)
        chk.cov["t_builders_%s_s" % name] = round(dt, 1)
        finished = rc == 0 and "\nEND" in b_out
        if not finished:
            lcse = lc.last_case(b_out) or "<before the first case>"
            chk.correspondence("builder harness (%s) ran to completion" % name, False,
                               "rc=%s last %s\n%s" % (rc, lcse, b_out[-1500:]))
            last_b = [l for l in b_out.split("\n") if l.startswith("B ")][-1:]
            chk.violation("C18: the harness process died (rc=%s) while running %s (last completed scenario: %s) — a panic or "
                          "abort inside gc-arena while collecting after builder scenarios" % (rc, lcse, last_b),
                          "build=%s seed=%d tier=%s repo=%s\nlast lines:\n%s" % (name, seed, tier, vlib.REPO, b_out[-3000:]))
        else:
            chk.correspondence("builder harness (%s) ran to completion" % name, True, "")
        hp = [l for l in b_out.split("\n") if l.startswith("PLATFORM ")]
        if hp:
            d = lc.kv(hp[0])
            chk.correspondence("harness (%s) built with the verification hooks and a %s-bit usize" % (name, plat[0]),
                               d.get("hooks") == "true" and int(d["usize_bits"]) == plat[0], hp[0])
        nv = _report_viols(chk, b_out, "builder scenarios (%s build)" % name, seed, tier)
        chk.correspondence("property oracle on every scenario (%s): initialised parts destructed exactly once, block freed "
                           "once with its layout, abandoned => count/debt/chain unchanged and never traced, completed => "
                           "+1 Gc with the written contents" % name, nv == 0, "%d VIOL lines" % nv)
        b_lines = [l for l in b_out.split("\n") if l.startswith("B ")]
        okr, bad, mflags, raw = lc.run_model([plat_hdr], b_lines)
        # informational only: layout arithmetic is property C17's business, C18 compares the free
        # layout with the layout the builder was observed to allocate
        chk.cov["scenarios_whose_block_layout_differs_from_the_C17_model_%s" % name] = mflags.get("LAYOUTDIFF", 0)
        if mflags.get("LAYOUTDIFF", 0):
            chk.notes.append("%d scenarios (%s) allocate a block whose layout differs from the C17 model's prediction; "
                             "see property C17" % (mflags.get("LAYOUTDIFF", 0), name))
        chk.correspondence("model reproduces events, metrics deltas, chain membership and contents of %d scenarios (%s)"
                           % (len(b_lines), name), okr and not bad and len(b_lines) > 1000,
                           "\n".join("%s :: %s" % (b_lines[i], m) for i, m in bad[:10]) + raw[-300:])
        if name == "debug":
            b_lines_debug = b_lines
            bad_debug = bad

    # coverage
    by_kind, by_scen, flagsets = {}, {}, {}
    for l in b_lines_debug:
        p = l.split()
        if p[1] != "C":
            by_scen["rejected-new"] = by_scen.get("rejected-new", 0) + 1
            continue
        k = p[2]
        by_kind[k] = by_kind.get(k, 0) + 1
        i = {"Z": 5, "S": 5, "T": 3, "W": 7}[k]
        sc = p[i + 1]
        by_scen[sc] = by_scen.get(sc, 0) + 1
        off = i + 2 + (1 if sc in ("PA", "CP") else 0)
        fl = "".join(p[off:off + 3])
        flagsets[fl] = flagsets.get(fl, 0) + 1
    chk.cov["scenarios_by_builder_kind"] = {"GcBuilder(Z)": by_kind.get("Z", 0), "slice(S)": by_kind.get("S", 0),
                                            "str(T)": by_kind.get("T", 0), "slice_with_header(W)": by_kind.get("W", 0)}
    chk.cov["scenarios_by_stage"] = by_scen
    chk.cov["scenarios_by_destructor_flags(hdr,elem,zst)"] = flagsets
    chk.cov["traces_validated_against_impl"] = len(b_lines_debug)

    # ---- 3. sample re-checked inside Coq ---------------------------------------------------------
    k = 1200 if thorough else 400
    smp = [l for l in b_lines_debug if len(l) < 4000]
    smp = lc.sample(smp, k, rng) + [b_lines_debug[i] for i, _ in (bad_debug[:10] if b_lines_debug else [])]
    text, thms = lc.coq_sample_file("C18", plat, (3, 4, 8), smp)
    oks, outs = lc.compile_gen("C18Sample.v", text, timeout=900)
    chk.obligation("Gen/C18Sample.v: %d sampled scenarios re-evaluated by vm_compute agree (cross-check of the extraction)"
                   % len(smp), oks and outs.count("Closed under the global context") == len(thms), outs[-3000:])

    chk.evaluations = len(b_lines_debug) * len(bindirs)
    chk.distinct = len(set(" ".join(l.split()[:12]) for l in b_lines_debug))
    for l in lc.sample([x for x in b_lines_debug if len(x) < 300], 10, rng):
        chk.sample(l)

    if thorough:
        okc, outc = vlib.coqchk(lc.COQ, lc.LOGICAL, ["GALayout.Props.C18"], timeout=1500)
        chk.obligation("coqchk GALayout.Props.C18", okc, outc[-3000:])


def replay(path):
    print(open(path).read())
    print("--- re-running the C18 check on %s (quick tier) ---" % vlib.REPO)
    chk = vlib.Check("C18", "quick", int(os.environ.get("VERIF_SEED", "1") or 1))
    run(chk, "quick", chk.seed)
    for v in chk.viols:
        print("STILL FAILS:", v["desc"])
    if not chk.viols:
        print("no oracle failure on the current tree")
    return 1 if chk.viols else 0
