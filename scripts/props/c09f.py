"""C09F - Flocq exactness lemma for Metrics::allocation_debt / finish_cycle on the dyadic grid.

Coq project /verif/coq-float (logical prefix GAFloat):
  Model.v   real-number model of the binary64 evaluation (round after every operation) + exact formulas
  Proofs.v  exactness on the grid (Flocq: generic_format_FLT, round_generic)
  Bridge.v  Q2R of GA.Model.Metrics.{cycle_debits,cycle_credits,allocation_debt,finish_cycle} = exact formulas
  Props/C09F.v, Props/C09FBridge.v  property theorems + Print Assumptions

`obligations()` -> [(name, ok, detail)]: builds the project (full .vo), recompiles the two Props files
capturing `Print Assumptions`, and audits every theorem against ALLOWED (standard-library axioms of
the classical reals only) plus the forbidden-vernacular scan.  Nothing here reads /repo:
the tie between the formula and src/metrics.rs is the lock-step correspondence of C09/C10
(`source_shape()` below is an optional textual cross-check the caller may add).
"""
import fcntl
import os
import re
import sys

sys.path.insert(0, os.path.join(os.path.dirname(os.path.abspath(__file__)), ".."))
import vlib  # noqa: E402

ROOT = os.path.dirname(os.path.dirname(os.path.dirname(os.path.abspath(__file__))))
FLOAT = os.path.join(ROOT, "coq-float")
GA = os.path.join(ROOT, "coq")
JOBS = 4

# Axioms of Coq's standard library that the real numbers (Reals) and Flocq's rounding theory rest on.
# Every name that actually shows up under `Print Assumptions` for the theorems below is listed; nothing
# else is tolerated (in particular nothing declared in /verif).
ALLOWED = {
    "ClassicalDedekindReals.sig_forall_dec",
    "ClassicalDedekindReals.sig_not_dec",
    "FunctionalExtensionality.functional_extensionality_dep",
    "Classical_Prop.classic",
}
ALLOWED |= {"Coq.Reals." + a for a in list(ALLOWED) if a.startswith("ClassicalDedekindReals")}
ALLOWED |= {"Coq.Logic." + a for a in list(ALLOWED) if a.startswith(("FunctionalExt", "Classical_Prop"))}

# theorem name -> Props file (the fixed names first)
CORE_THEOREMS = [
    "C09F_grid_round_exact", "C09F_grid_is_f64", "C09F_debt_exact", "C09F_debits_exact",
    "C09F_credits_exact", "C09F_debt_is_f64", "C09F_wakeup_exact", "C09F_factor64_on_grid",
]
BRIDGE_THEOREMS = [
    "C09F_model_is_real_formula", "C09F_f64_debt_is_model", "C09F_f64_wakeup_is_model",
]
COQ_FLAGS = ["-q", "-Q", ".", "GAFloat", "-Q", GA, "GA"]


def _print_assumptions(props_file, timeout=300):
    """coqc the Props file, return (ok, {theorem: [axioms]}, raw)."""
    rc, out = vlib.run(["coqc"] + COQ_FLAGS + [props_file], cwd=FLOAT, timeout=timeout)
    if rc != 0:
        return False, {}, out
    src = vlib.strip_coq_comments(open(os.path.join(FLOAT, props_file)).read())
    names = re.findall(r"Print\s+Assumptions\s+([A-Za-z0-9_'.]+)\s*\.", src)
    blocks = re.split(r"(?m)^(?=Closed under the global context|Axioms:)", out)
    blocks = [b for b in blocks if b.startswith("Closed under") or b.startswith("Axioms:")]
    res = {}
    for i, n in enumerate(names):
        if i >= len(blocks):
            res[n] = ["<no Print Assumptions output>"]
        elif blocks[i].startswith("Closed under"):
            res[n] = []
        else:
            # an axiom entry starts in column 0; its type may continue on indented lines
            ax = re.findall(r"(?m)^([A-Za-z_][A-Za-z0-9_'.]*)\s*:", blocks[i][len("Axioms:"):])
            res[n] = ax or ["<unparsed>"]
    return True, res, out


def _stated(props_file, name):
    """The Props file must state `Theorem name : ...` itself (not merely print something else)."""
    src = vlib.strip_coq_comments(open(os.path.join(FLOAT, props_file)).read())
    return re.search(r"\bTheorem\s+%s\s*:" % re.escape(name), src) is not None


def _audit(out, props_file, names, built_ok, build_detail, hits):
    if not built_ok:
        for n in names:
            out.append((n, False, "build failed: " + build_detail[-600:]))
        return
    ok, res, raw = _print_assumptions(props_file)
    if not ok:
        for n in names:
            out.append((n, False, "coqc %s failed: %s" % (props_file, raw[-600:])))
        return
    for n in names:
        if n not in res or not _stated(props_file, n):
            out.append((n, False, "theorem not stated / no Print Assumptions in " + props_file))
            continue
        bad = [a for a in res[n] if a not in ALLOWED]
        if bad:
            out.append((n, False, "axioms outside the standard-library allow-list: " + ", ".join(bad)))
        elif hits:
            out.append((n, False, "forbidden vernacular in coq-float: " + "; ".join(hits[:3])))
        else:
            out.append((n, True, "stdlib axioms only: " + (", ".join(res[n]) or "closed under the global context")))
    extra = [n for n in res if n not in names]
    if extra:
        out.append(("C09F_props_unlisted", False, "Print Assumptions for unlisted theorems: " + ", ".join(extra)))


def _ga_ready():
    """GA.Model.Metrics must be compiled and not older than its sources (so that our own Makefile never
    tries to rebuild anything inside /verif/coq).  If stale, build just that target there, the same way
    core.py does."""
    def fresh():
        for stem in ("Model/Base", "Model/Metrics"):
            v, vo = os.path.join(GA, stem + ".v"), os.path.join(GA, stem + ".vo")
            if not os.path.exists(vo) or os.path.getmtime(vo) < os.path.getmtime(v):
                return False
        return True
    if fresh():
        return True, ""
    ok, out = vlib.coq_make(GA, ["Model/Metrics.vo"], timeout=600, jobs=JOBS)
    return ok and fresh(), out


def obligations():
    os.makedirs(os.path.join(ROOT, ".build"), exist_ok=True)
    res = []
    with open(os.path.join(ROOT, ".build", "coq-float.lock"), "w") as lk:
        fcntl.flock(lk, fcntl.LOCK_EX)          # C09 and C10 may call this at the same time
        hits = vlib.coq_forbidden_scan(FLOAT)
        res.append(("C09F_no_forbidden_vernacular", not hits,
                    "; ".join(hits[:5]) if hits else "no Admitted/admit/Axiom/Parameter/Conjecture/Variable-outside-Section in coq-float"))
        # 1. the Flocq lemma (does not depend on /verif/coq)
        ok, out = vlib.coq_make(FLOAT, ["Props/C09F.vo"], timeout=900, jobs=JOBS)
        _audit(res, "Props/C09F.v", CORE_THEOREMS, ok, out, hits)
        # 2. the bridge to the Q model
        gok, gout = _ga_ready()
        if gok:
            ok, out = vlib.coq_make(FLOAT, ["Props/C09FBridge.vo"], timeout=900, jobs=JOBS)
        else:
            ok, out = False, "GA.Model.Metrics not built: " + gout
        _audit(res, "Props/C09FBridge.v", BRIDGE_THEOREMS, ok, out, hits)
    return res


# --- optional textual cross-check of the modelled expressions against src/metrics.rs -----------------
_SHAPES = [
    ("cycle_debits", "let cycle_debits = allocated_gcs - self.0.wakeup_amount.get() + self.0.artificial_debt.get();"),
    ("early_return", "if cycle_debits <= 0.0 { return 0.0; }"),
    ("cycle_credits",
     "let cycle_credits = self.0.marked_gcs.get() as f64 * pacing.mark_factor"
     " + self.0.traced_gcs.get() as f64 * pacing.trace_factor"
     " + self.0.remembered_gcs.get() as f64 * pacing.keep_factor"
     " + self.0.dropped_gcs.get() as f64 * pacing.drop_factor"
     " + self.0.freed_gcs.get() as f64 * pacing.free_factor;"),
    ("result", "(cycle_debits - cycle_credits).max(0.0)"),
    ("wakeup", "let wakeup_amount = (remembered_count as f64 * pacing.sleep_factor).max(pacing.min_sleep as f64);"),
]


def source_shape():
    """(name, ok, detail): the expressions whose binary64 evaluation Model.v transcribes (operation order,
    left-associated sums) still occur verbatim (modulo whitespace and comments) in /repo/src/metrics.rs.
    Purely textual and therefore sensitive to harmless renamings: meant as supporting evidence next to
    the lock-step correspondence, not as a replacement for it."""
    try:
        src = open(os.path.join(vlib.REPO, "src", "metrics.rs"), errors="replace").read()
    except OSError as e:
        return ("C09F_source_shape", False, str(e))
    src = re.sub(r"//[^\n]*", "", src)
    norm = lambda s: re.sub(r"\s+", "", s)
    flat = norm(src)
    missing = [n for n, text in _SHAPES if norm(text) not in flat]
    return ("C09F_source_shape", not missing,
            "all modelled expressions found verbatim in src/metrics.rs" if not missing
            else "expressions no longer found verbatim: " + ", ".join(missing))


if __name__ == "__main__":
    bad = 0
    for n, ok, d in obligations() + [source_shape()]:
        print("%-34s %s  %s" % (n, "ok  " if ok else "FAIL", d))
        bad += not ok
    sys.exit(1 if bad else 0)
