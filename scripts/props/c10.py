"""C10: see DESIGN.md section 5. Collector-core property: theorems in coq/Props/C10.v, tie by lock-step."""
from props import core

SETUP_KEY = core.SETUP_KEY
setup = core.setup


def run(chk, tier, seed):
    core.run_core(chk, "C10", tier, seed)


def replay(path):
    return core.replay("C10", path)
