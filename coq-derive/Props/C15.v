(* Props/C15.v -- property C15: derive(Collect) traces every field and rejects unsound uses.

   Only statements (proved by `exact` of a lemma of DeriveProofs.v), `Print Assumptions`, and
   Examples (non-vacuity, a discriminating mutant, and the boundary of the rejection clauses).

   Vocabulary (ModelDerive.v section 9, all syntactic and independent of the parsing code):
     variants s              the variants synstructure sees (a struct is one variant)
     field_require_static f  f carries exactly `#[collect(require_static)]`
     mode_idents_of s        the mode identifiers written in the type's #[collect(..)] attributes
     require_static_mode s   "require_static" is among them
     spec_traced s v         the bindings (original index + field) the property wants traced
     traced_bindings g i     what the emitted `fn trace` hands to Trace::trace in its i-th arm
     is_err r                r = Err _  (a compile_error!, or a panic of the macro) *)
From Coq Require Import List String Bool Arith.
From GADerive Require Import ModelDerive ModelShow DeriveProofs.
Import ListNotations.
Local Open Scope string_scope.
Local Open Scope list_scope.

(* ------------------------------------------------------------------------------------------ *)
(* C15_traces_all: for EVERY shape the macro accepts, every variant's arm traces exactly the   *)
(* fields without require_static, in declaration order, at their original positions; with      *)
(* `require_static` as the *mode* there is no trace body and nothing is traced.                *)
(* ------------------------------------------------------------------------------------------ *)
Theorem C15_traces_all : forall s g,
  derive s = Ok g ->
  (ci_trace (g_collect g) = None <-> require_static_mode s = true) /\
  (forall arms, ci_trace (g_collect g) = Some arms -> List.length arms = List.length (variants s)) /\
  (forall i v, nth_error (variants s) i = Some v -> traced_bindings g i = spec_traced s v).
Proof. exact traces_all_packaged. Qed.
Print Assumptions C15_traces_all.

(* what spec_traced means: the non-require_static fields, order preserved ... *)
Theorem C15_traces_all_order : forall s v,
  map b_field (spec_traced s v) =
    (if require_static_mode s then [] else filter (fun f => negb (field_require_static f)) (v_fields v)).
Proof. exact spec_traced_fields_order. Qed.
Print Assumptions C15_traces_all_order.

(* ... each at its original position (so `__binding_i` really is field i) *)
Theorem C15_traces_all_positions : forall s v b,
  In b (spec_traced s v) -> nth_error (v_fields v) (b_index b) = Some (b_field b).
Proof. exact spec_traced_positions. Qed.
Print Assumptions C15_traces_all_positions.

(* every arm names its variant, binds exactly what it traces, and each statement is a call of
   Trace::trace on a binding (which is what makes rustc demand `FieldTy: Collect`) *)
Theorem C15_trace_arms_shape : forall s g arms,
  derive s = Ok g -> ci_trace (g_collect g) = Some arms ->
  forall i v, nth_error (variants s) i = Some v ->
  exists arm, nth_error arms i = Some arm /\
    ta_variant arm = v_name v /\ ta_kind arm = v_kind v /\
    ta_bound arm = spec_traced s v /\
    ta_body arm = map CcTrace (ta_bound arm).
Proof. exact trace_arms_shape. Qed.
Print Assumptions C15_trace_arms_shape.

(* ------------------------------------------------------------------------------------------ *)
(* C15_needs_trace: under every valuation rho of the field types' own NEEDS_TRACE constants,   *)
(* the emitted initializer evaluates to the disjunction over the traced fields of all variants *)
(* ------------------------------------------------------------------------------------------ *)
Theorem C15_needs_trace : forall s g,
  derive s = Ok g ->
  forall rho, eval rho (ci_needs_trace (g_collect g)) = existsb (fun f => rho (f_ty f)) (spec_traced_fields s).
Proof. exact needs_trace_correct. Qed.
Print Assumptions C15_needs_trace.

(* ------------------------------------------------------------------------------------------ *)
(* C15_rejects_in_macro                                                                        *)
(* ------------------------------------------------------------------------------------------ *)
Theorem C15_rejects_in_macro : forall s,
  (* missing mode *)
  (mode_idents_of s = [] -> is_err (derive s)) /\
  (* two (or more) modes *)
  (2 <= List.length (mode_idents_of s) -> is_err (derive s)) /\
  (* #[collect] on an enum variant *)
  (forall vs v, require_static_mode s = false ->
     s_data s = DEnum vs -> In v vs -> existsb is_collect_attr (v_attrs v) = true -> is_err (derive s)) /\
  (* a field attribute other than exactly #[collect(require_static)] (or the empty #[collect()]) *)
  (forall v f a, require_static_mode s = false ->
     In v (variants s) -> In f (v_fields v) -> In a (f_attrs f) -> is_collect_attr a = true ->
     attr_is_require_static a = false -> attr_is_empty_list a = false -> is_err (derive s)) /\
  (* two #[collect] attributes on one field *)
  (forall v f, require_static_mode s = false ->
     In v (variants s) -> In f (v_fields v) -> 2 <= List.length (filter is_collect_attr (f_attrs f)) ->
     is_err (derive s)) /\
  (* >= 2 lifetime parameters without gc_lifetime *)
  (require_static_mode s = false ->
     2 <= List.length (lifetimes_of (s_generics s)) -> has_gc_lifetime_item s = false -> is_err (derive s)) /\
  (* two #[collect] attributes on the type; unions *)
  (2 <= List.length (filter is_collect_attr (s_attrs s)) -> is_err (derive s)) /\
  (s_data s = DUnion -> is_err (derive s)).
Proof.
  intros s.
  split; [exact (rejects_missing_mode s)|].
  split; [exact (rejects_two_modes s)|].
  split; [exact (fun vs v => rejects_variant_attr s vs v)|].
  split; [exact (fun v f a => rejects_bad_field_attr s v f a)|].
  split; [exact (fun v f => rejects_duplicate_field_attr s v f)|].
  split; [exact (rejects_lifetimes s)|].
  split; [exact (rejects_duplicate_type_attr s)|].
  exact (rejects_union s).
Qed.
Print Assumptions C15_rejects_in_macro.

(* the same clauses as one decidable predicate (printed per case by the correspondence check) *)
Theorem C15_spec_must_reject_sound : forall s, spec_must_reject s = true -> is_err (derive s).
Proof. exact spec_must_reject_sound. Qed.
Print Assumptions C15_spec_must_reject_sound.

(* ------------------------------------------------------------------------------------------ *)
(* C15_emits_guards                                                                            *)
(* ------------------------------------------------------------------------------------------ *)
Theorem C15_emits_guards : forall s g,
  derive s = Ok g ->
  (* no_drop <-> `impl<generics> ::gc_arena::__MustNotImplDrop for Self where <own>` is emitted *)
  g_drop_guard g =
    (if mem_string "no_drop" (mode_idents_of s)
     then Some {| dg_generics := s_generics s; dg_where := map WVerbatim (s_where s) |}
     else None) /\
  (* require_static field -> `FieldTy: 'static` in the where clause *)
  (forall v f, require_static_mode s = false ->
     In v (variants s) -> In f (v_fields v) -> field_require_static f = true ->
     In (WTyStatic (f_ty f)) (ci_where (g_collect g))) /\
  (* require_static mode -> `Self: 'static`, NEEDS_TRACE = false, default (empty) trace *)
  (require_static_mode s = true ->
     ci_where (g_collect g) = WSelfStatic :: map WVerbatim (s_where s) /\
     ci_needs_trace (g_collect g) = BLit false /\
     ci_trace (g_collect g) = None) /\
  (* every binding to be traced is bound by its arm's pattern and passed to Trace::trace *)
  (forall i v b, nth_error (variants s) i = Some v -> In b (spec_traced s v) ->
     exists arms arm, ci_trace (g_collect g) = Some arms /\ nth_error arms i = Some arm /\
                      In (CcTrace b) (ta_body arm) /\ In b (ta_bound arm)) /\
  (* without `bound = ...`, every type parameter a traced field mentions gets `P: Collect<'gc>` *)
  (forall v b p, require_static_mode s = false -> has_bound_item s = false ->
     In v (variants s) -> In b (spec_traced s v) ->
     In p (referenced_ty_params (s_generics s) (f_ty (b_field b))) ->
     In (WParamCollect p (ci_gc_lifetime (g_collect g))) (ci_where (g_collect g))).
Proof.
  intros s g H.
  split; [exact (guard_no_drop s g H)|].
  split; [exact (fun v f Hn => guard_static_field s g v f H Hn)|].
  split; [exact (guard_require_static_mode s g H)|].
  split; [exact (fun i v b => guard_traced_passed_to_trace s g i v b H)|].
  exact (fun v b p Hn Hb => guard_generic_bounds s g v b p H Hn Hb).
Qed.
Print Assumptions C15_emits_guards.

(* which lifetime the impl is for *)
Theorem C15_gc_lifetime_choice : forall s g,
  derive s = Ok g -> require_static_mode s = false -> has_gc_lifetime_item s = false ->
  match lifetimes_of (s_generics s) with
  | [] => ci_gc_lifetime (g_collect g) = "gc"
  | [l] => ci_gc_lifetime (g_collect g) = l
  | _ => False
  end.
Proof. exact gc_lifetime_choice. Qed.
Print Assumptions C15_gc_lifetime_choice.

(* ------------------------------------------------------------------------------------------ *)
(* Examples                                                                                    *)
(* ------------------------------------------------------------------------------------------ *)
Definition it (p : string) : meta_item := {| mi_path := p; mi_tail := TailNone |}.
Definition collect_attr (items : list meta_item) : attr :=
  {| a_path := "collect"; a_args := ArgsList items false |}.
Definition rs_attr : attr := collect_attr [it "require_static"].
Definition tpath (n : string) : ty := TyPath [n] [] [].
Definition gc_of (t : ty) : ty := TyPath ["Gc"] ["gc"] [t].
Definition fld (n : option string) (attrs : list attr) (t : ty) : field :=
  {| f_name := n; f_attrs := attrs; f_ty := t |}.

(* enum E<'gc, T> { A { x: Gc<'gc,u8>, #[collect(require_static)] y: St, z: Vec<T> },
                    B(#[collect(require_static)] St, T, Gc<'gc,u8>), C }              *)
Definition ex_enum : shape :=
  {| s_name := "E";
     s_attrs := [ {| a_path := "derive"; a_args := ArgsList [it "Collect"] false |}; collect_attr [it "no_drop"] ];
     s_generics := [GLifetime "gc" ""; GType "T" ""];
     s_where := [];
     s_data := DEnum
       [ {| v_name := "A"; v_attrs := []; v_kind := FNamed;
            v_fields := [ fld (Some "x") [] (gc_of (tpath "u8"));
                          fld (Some "y") [rs_attr] (tpath "St");
                          fld (Some "z") [] (TyPath ["Vec"] [] [tpath "T"]) ] |};
         {| v_name := "B"; v_attrs := []; v_kind := FUnnamed;
            v_fields := [ fld None [rs_attr] (tpath "St");
                          fld None [] (tpath "T");
                          fld None [] (gc_of (tpath "u8")) ] |};
         {| v_name := "C"; v_attrs := []; v_kind := FUnit; v_fields := [] |} ] |}.

(* Non-vacuity of `derive s = Ok g`: the macro accepts ex_enum, and the impl is the expected one. *)
Example ex_enum_accepted :
  exists g, derive ex_enum = Ok g /\
    map (fun bs => map b_index bs) [traced_bindings g 0; traced_bindings g 1; traced_bindings g 2]
      = [[0; 2]; [1; 2]; []] /\
    map show_pred (ci_where (g_collect g)) = ["St:'static"; "St:'static"; "T:::gc_arena::Collect<'gc>"] /\
    show_bexpr (ci_needs_trace (g_collect g)) =
      "or(or(or(or(false,nt(Gc<'gc,u8>)),nt(Vec<T>)),nt(T)),nt(Gc<'gc,u8>))" /\
    g_drop_guard g <> None.
Proof. eexists. split; [vm_compute; reflexivity|]. vm_compute. repeat split; discriminate. Qed.

(* NEEDS_TRACE really depends on the valuation (both values occur) *)
Example ex_enum_needs_trace_varies :
  exists g, derive ex_enum = Ok g /\
    eval (fun _ => false) (ci_needs_trace (g_collect g)) = false /\
    eval (fun t => String.eqb (show_ty t) "T") (ci_needs_trace (g_collect g)) = true.
Proof. eexists. split; [vm_compute; reflexivity|]. vm_compute. split; reflexivity. Qed.

(* Non-vacuity of the rejection hypotheses: concrete shapes satisfying each of them. *)
Definition with_attrs (s : shape) (attrs : list attr) : shape :=
  {| s_name := s_name s; s_attrs := attrs; s_generics := s_generics s; s_where := s_where s; s_data := s_data s |}.
Definition with_generics (s : shape) (gs : list gparam) : shape :=
  {| s_name := s_name s; s_attrs := s_attrs s; s_generics := gs; s_where := s_where s; s_data := s_data s |}.
Definition with_data (s : shape) (d : data) : shape :=
  {| s_name := s_name s; s_attrs := s_attrs s; s_generics := s_generics s; s_where := s_where s; s_data := d |}.

Example ex_missing_mode :
  mode_idents_of (with_attrs ex_enum []) = [] /\
  derive (with_attrs ex_enum []) = Err [EPanicMissingMode].
Proof. vm_compute. split; reflexivity. Qed.

Example ex_two_modes :
  2 <= List.length (mode_idents_of (with_attrs ex_enum [collect_attr [it "no_drop"; it "unsafe_drop"]])) /\
  derive (with_attrs ex_enum [collect_attr [it "no_drop"; it "unsafe_drop"]]) = Err [EMultipleModes].
Proof. vm_compute. split; [apply le_n|reflexivity]. Qed.

Definition ex_variant_attr : shape :=
  with_data ex_enum (DEnum [ {| v_name := "First"; v_attrs := [rs_attr]; v_kind := FNamed;
                                v_fields := [fld (Some "field") [] (tpath "u8")] |} ]).
Example ex_variant_attr_rejected :
  require_static_mode ex_variant_attr = false /\ derive ex_variant_attr = Err [EVariantAttr].
Proof. vm_compute. split; reflexivity. Qed.

Definition ex_field_attr : shape :=
  with_data ex_enum (DStruct FNamed [fld (Some "field") [collect_attr [it "invalid_arg"]] (tpath "u8")]).
Example ex_field_attr_rejected : derive ex_field_attr = Err [EFieldAttr].
Proof. vm_compute. reflexivity. Qed.

Definition ex_two_lifetimes : shape :=
  with_generics (with_data ex_enum (DStruct FUnnamed [fld None [] (gc_of (tpath "u8"))]))
                [GLifetime "gc" ""; GLifetime "a" ""].
Example ex_two_lifetimes_rejected :
  has_gc_lifetime_item ex_two_lifetimes = false /\ derive ex_two_lifetimes = Err [EPanicMultipleLifetimes].
Proof. vm_compute. split; reflexivity. Qed.

(* ... and the same type with an explicit gc_lifetime is accepted *)
Example ex_two_lifetimes_explicit_accepted :
  exists g, derive (with_attrs ex_two_lifetimes
                      [collect_attr [it "no_drop"; {| mi_path := "gc_lifetime"; mi_tail := TailEqLifetime "gc" |}]])
            = Ok g /\ ci_gc_lifetime (g_collect g) = "gc".
Proof. eexists. split; vm_compute; reflexivity. Qed.

(* require_static mode: Self: 'static, NEEDS_TRACE = false, no trace body, no drop guard *)
Example ex_require_static_mode :
  exists g, derive (with_generics (with_attrs ex_field_attr [collect_attr [it "require_static"]]) []) = Ok g /\
    map show_pred (ci_where (g_collect g)) = ["Self:'static"] /\
    ci_needs_trace (g_collect g) = BLit false /\ ci_trace (g_collect g) = None /\ g_drop_guard g = None.
Proof. eexists. split; [vm_compute; reflexivity|]. vm_compute. repeat split; reflexivity. Qed.

(* Discriminating example: a variant of the model that skips the last binding of every arm is
   accepted by the macro model but violates the conclusion of C15_traces_all on ex_enum (variant
   A loses field 2, variant B loses field 2). *)
Example C15_traces_all_discriminates :
  exists g v, derive_with (fun bs => removelast bs) ex_enum = Ok g /\
    nth_error (variants ex_enum) 0 = Some v /\
    map b_index (traced_bindings g 0) = [0] /\
    map b_index (spec_traced ex_enum v) = [0; 2] /\
    traced_bindings g 0 <> spec_traced ex_enum v.
Proof.
  eexists. eexists. split; [vm_compute; reflexivity|]. split; [vm_compute; reflexivity|].
  split; [vm_compute; reflexivity|]. split; [vm_compute; reflexivity|].
  vm_compute. discriminate.
Qed.

(* Discriminating example for C15_needs_trace: seeding the fold with `true` breaks the equation *)
Example C15_needs_trace_discriminates :
  exists g, derive (with_data ex_enum (DStruct FUnit [])) = Ok g /\
    eval (fun _ => false) (ci_needs_trace (g_collect g)) = false /\
    eval (fun _ => false) (BOr (BLit true) (ci_needs_trace (g_collect g))) <> false.
Proof. eexists. split; [vm_compute; reflexivity|]. vm_compute. split; [reflexivity|discriminate]. Qed.

(* Boundary of the rejection clauses (why clauses 3-6 carry `require_static_mode s = false`, and
   clause 4 `attr_is_empty_list a = false`): the unconditional statements are FALSE of the faithful
   model, because the `require_static` *mode* branch of collect_derive never looks at field or
   variant attributes, and `#[collect()]` parses as an empty list.  Witnesses: *)
Example C15_rejects_variant_attr_unconditional_refuted :
  exists s vs v g, s_data s = DEnum vs /\ In v vs /\ existsb is_collect_attr (v_attrs v) = true /\
                   derive s = Ok g.
Proof.
  exists (with_generics (with_attrs ex_variant_attr [collect_attr [it "require_static"]]) []).
  eexists. eexists. eexists.
  split; [reflexivity|]. split; [left; reflexivity|]. split; vm_compute; reflexivity.
Qed.

Example C15_rejects_field_attr_unconditional_refuted :
  exists s v f a g, In v (variants s) /\ In f (v_fields v) /\ In a (f_attrs f) /\ is_collect_attr a = true /\
                    attr_is_require_static a = false /\ derive s = Ok g.
Proof.
  exists (with_data ex_enum (DStruct FNamed [fld (Some "field") [collect_attr []] (tpath "u8")])).
  eexists. eexists. eexists. eexists.
  split; [left; reflexivity|]. split; [left; reflexivity|]. split; [left; reflexivity|].
  split; [reflexivity|]. split; vm_compute; reflexivity.
Qed.

Example C15_rejects_lifetimes_unconditional_refuted :
  exists s g, 2 <= List.length (lifetimes_of (s_generics s)) /\ has_gc_lifetime_item s = false /\ derive s = Ok g.
Proof.
  exists (with_generics (with_attrs ex_field_attr [collect_attr [it "require_static"]]) [GLifetime "a" ""; GLifetime "b" ""]).
  eexists. split; [apply le_n|]. split; vm_compute; reflexivity.
Qed.
