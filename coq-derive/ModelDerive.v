(* ModelDerive.v -- hand-written Gallina model of `collect_derive` (gc-arena/derive/src/lib.rs).

   Definitions only (no proofs): the model must still run when a proof breaks.

   The model follows the Rust function step by step.  `synstructure` (0.13.2) and `syn` (2.0.x)
   library functions are modelled by their documented meaning:

     syn::Attribute::parse_nested_meta   -> [parse_nested_meta] / [nested_loop]
     synstructure::Structure::try_new    -> [variants]
     Structure::filter                   -> [filter_variant] (Vec::retain, variants then fields in order)
     Structure::variants / bindings      -> lists of [binding] (original index + field)
     Structure::each                     -> [each_variant] (one match arm per variant, one block per binding)
     Structure::add_where_predicate      -> predicates placed before generated bounds
     Structure::add_bounds + gen_impl    -> [merge_generics], [generic_bounds], where-clause assembly

   Every comment of the form  (* lib.rs: ... *)  names the Rust statement the definition mirrors. *)

From Coq Require Import List String Bool Arith.
Import ListNotations.
Local Open Scope string_scope.
Local Open Scope list_scope.

Inductive result (A E : Type) : Type :=
| Ok (a : A)
| Err (e : E).
Arguments Ok {A E} a.
Arguments Err {A E} e.

(* ------------------------------------------------------------------------------------------ *)
(* 1. Input syntax: what `syn::DeriveInput` carries, as far as the derive looks at it           *)
(* ------------------------------------------------------------------------------------------ *)

(* Field types.  The derive treats a field type as an opaque token tree, except that synstructure
   looks for identifiers equal to a type parameter (get_ty_params: visit_ident) and treats a macro
   in type position as mentioning every type parameter (visit_type_macro). Lifetimes are stored
   without the apostrophe. *)
Inductive ty : Type :=
| TyPath (segs : list string) (lts : list string) (args : list ty)  (* a::b::Name<'l, A, B> *)
| TyTuple (elems : list ty)                                        (* (A, B) *)
| TyRef (lt : option string) (inner : ty)                          (* &'a T *)
| TyArray (elem : ty) (len : string)                               (* [T; N] *)
| TyMacro (toks : string)                                          (* m!(...) *)
| TyOther (toks : string) (idents : list string).                  (* anything else: text + identifiers in it *)

(* What follows the path of one item of `#[collect(item, item, ...)]`. *)
Inductive bound_lit : Type :=
| BoundEmpty                          (* bound = ""                         *)
| BoundWhere (preds : list string)    (* bound = "where P1, P2"             *)
| BoundMalformed.                     (* does not lex / does not parse as an optional where clause *)

Inductive meta_tail : Type :=
| TailNone                            (* `ident`                            *)
| TailEqStr (b : bound_lit)           (* `ident = "..."`                    *)
| TailEqLifetime (lt : string)        (* `ident = 'a`                       *)
| TailEqOther                         (* `ident = <anything else>`          *)
| TailGroup.                          (* `ident(...)` and other junk        *)

Record meta_item : Type := { mi_path : string; mi_tail : meta_tail }.

Inductive attr_args : Type :=
| ArgsNone                                                   (* #[collect]          *)
| ArgsEq                                                     (* #[collect = ...]    *)
| ArgsList (items : list meta_item) (trailing_comma : bool). (* #[collect(a, b,)]   *)

Record attr : Type := { a_path : string; a_args : attr_args }.

Record field : Type := { f_name : option string; f_attrs : list attr; f_ty : ty }.

Inductive fields_kind : Type := FNamed | FUnnamed | FUnit.

Record variant : Type :=
  { v_name : string; v_attrs : list attr; v_kind : fields_kind; v_fields : list field }.

(* Generic parameters, in declaration order.  Bounds are opaque text. *)
Inductive gparam : Type :=
| GLifetime (n : string) (bounds : string)
| GType (n : string) (bounds : string)
| GConst (n : string) (cty : string).

Inductive data : Type :=
| DStruct (k : fields_kind) (fs : list field)
| DEnum (vs : list variant)
| DUnion.

Record shape : Type :=
  { s_name : string;
    s_attrs : list attr;
    s_generics : list gparam;
    s_where : list string;      (* the type's own where-clause predicates (opaque text) *)
    s_data : data }.

(* synstructure::Structure::try_new: a struct is a single variant carrying the *struct's*
   attributes; a union is refused. *)
Definition variants (s : shape) : list variant :=
  match s_data s with
  | DStruct k fs => [ {| v_name := s_name s; v_attrs := s_attrs s; v_kind := k; v_fields := fs |} ]
  | DEnum vs => vs
  | DUnion => []
  end.

Definition is_enum (s : shape) : bool :=
  match s_data s with DEnum _ => true | _ => false end.

Definition is_union (s : shape) : bool :=
  match s_data s with DUnion => true | _ => false end.

(* ------------------------------------------------------------------------------------------ *)
(* 2. Output: what the derive emits                                                            *)
(* ------------------------------------------------------------------------------------------ *)

Inductive derive_error : Type :=
| EUnion                   (* synstructure: "unexpected unsupported untagged union"            *)
| EMultipleCollectAttrs    (* "Cannot specify multiple `#[collect]` attributes!"               *)
| EExpectedParens          (* syn: #[collect] / #[collect = ..] given to parse_nested_meta      *)
| EMetaSyntax              (* syn: expected `,` / expected nested attribute / value parse error *)
| EMultipleBounds          (* "multiple bounds specified"                                      *)
| EMultipleGcLifetimes     (* "multiple `'gc` lifetimes specified"                             *)
| EMultipleModes           (* "multiple modes specified"                                       *)
| EUnknownOption           (* "unknown option"                                                 *)
| EFieldAttr               (* "Only `#[collect(require_static)]` is supported on a field"      *)
| EVariantAttr             (* "`#[collect]` is not supported on enum variants"                 *)
| EMergeConflict           (* synstructure: "Attempted to merge conflicting generic parameters" *)
| EPanicMissingMode        (* panic: "deriving `Collect` requires a `#[collect(...)]` attribute" *)
| EPanicMultipleLifetimes  (* panic: "... multiple lifetime parameters requires ... gc_lifetime" *)
| EPanicBound.             (* panic: bound string does not parse                               *)

Inductive mode : Type := RequireStatic | NoDrop | UnsafeDrop.

(* Boolean expressions over field types: the NEEDS_TRACE initializer. [BAtom t] stands for
   `<t as ::gc_arena::Collect>::NEEDS_TRACE`. *)
Inductive bexpr : Type :=
| BLit (b : bool)
| BAtom (t : ty)
| BOr (l r : bexpr)
| BAnd (l r : bexpr).

Fixpoint eval (rho : ty -> bool) (e : bexpr) : bool :=
  match e with
  | BLit b => b
  | BAtom t => rho t
  | BOr l r => eval rho l || eval rho r
  | BAnd l r => eval rho l && eval rho r
  end.

Inductive where_pred : Type :=
| WSelfStatic                                (* Self: 'static                               *)
| WVerbatim (toks : string)                  (* copied text: bound override / own where     *)
| WTyStatic (t : ty)                         (* FieldTy: 'static                            *)
| WParamCollect (p : string) (lt : string).  (* P: ::gc_arena::Collect<'lt>                 *)

(* A synstructure binding: original position in the variant plus the field. *)
Record binding : Type := { b_index : nat; b_field : field }.

(* One statement of an arm body: `{ let bi = <binding>; cc.trace(bi); }`, i.e. the binding is
   handed to `Trace::trace`, which demands `FieldTy: Collect` of rustc. *)
Inductive trace_stmt : Type := CcTrace (b : binding).

Record trace_arm : Type :=
  { ta_variant : string;            (* variant (or struct) name                                 *)
    ta_kind : fields_kind;
    ta_bound : list binding;        (* bindings introduced by the pattern, `ref __binding_i`    *)
    ta_rest : bool;                 (* pattern ends in `..`                                     *)
    ta_body : list trace_stmt }.    (* in order                                                 *)

Record collect_impl : Type :=
  { ci_generics : list gparam;       (* impl<...>                                              *)
    ci_gc_lifetime : string;         (* ::gc_arena::Collect<'this>                             *)
    ci_where : list where_pred;      (* complete where clause, in emission order               *)
    ci_needs_trace : bexpr;          (* const NEEDS_TRACE: bool = ...                          *)
    ci_trace : option (list trace_arm) }. (* None: no `fn trace` emitted (trait default: no-op) *)

(* `impl<generics> ::gc_arena::__MustNotImplDrop for Self<..> where <own preds> {}` *)
Record drop_guard : Type := { dg_generics : list gparam; dg_where : list where_pred }.

Record gen_impl : Type := { g_collect : collect_impl; g_drop_guard : option drop_guard }.

(* Everything the macro can do: panic, or return tokens = optional Collect impl + optional drop
   guard + a list of `compile_error!`s. *)
Inductive derive_outcome : Type :=
| DPanic (e : derive_error)
| DOutput (ci : option collect_impl) (dg : option drop_guard) (errors : list derive_error).

(* ------------------------------------------------------------------------------------------ *)
(* 3. syn helpers                                                                              *)
(* ------------------------------------------------------------------------------------------ *)

(* Path::is_ident *)
Definition is_ident (path name : string) : bool := String.eqb path name.

(* lib.rs: fn find_collect_meta *)
Fixpoint find_collect_meta_from (found : option attr) (attrs : list attr)
  : result (option attr) derive_error :=
  match attrs with
  | [] => Ok found
  | a :: rest =>
      if is_ident (a_path a) "collect" then
        match found with
        | Some _ => Err EMultipleCollectAttrs      (* found.replace(attr).is_some() *)
        | None => find_collect_meta_from (Some a) rest
        end
      else find_collect_meta_from found rest
  end.

Definition find_collect_meta (attrs : list attr) : result (option attr) derive_error :=
  find_collect_meta_from None attrs.

(* syn::meta::parse_nested_meta.  [logic st item input_empty] is the user closure: [input_empty]
   is `meta.input.is_empty()` right after the item's path was parsed; it returns the new captured
   state and whether it consumed the item's tail (`meta.value()?.parse()`), or an error.  The
   captured state survives an error (the closure mutates variables of the enclosing function). *)
Section NestedMeta.
  Context {St : Type}.
  Variable logic : St -> meta_item -> bool -> result (St * bool) derive_error.

  Definition tail_is_none (t : meta_tail) : bool :=
    match t with TailNone => true | _ => false end.

  Fixpoint nested_loop (st : St) (items : list meta_item) (trailing : bool)
    : St * option derive_error :=
    match items with
    | [] => (st, None)
    | it :: rest =>
        let input_empty :=
          tail_is_none (mi_tail it) && (match rest with [] => true | _ => false end) && negb trailing in
        match logic st it input_empty with
        | Err e => (st, Some e)
        | Ok (st', consumed) =>
            if consumed || tail_is_none (mi_tail it)
            then nested_loop st' rest trailing        (* `,` or end of input *)
            else (st', Some EMetaSyntax)              (* expected `,` *)
        end
    end.

  Definition parse_nested_meta (st : St) (a : attr) : St * option derive_error :=
    match a_args a with
    | ArgsNone | ArgsEq => (st, Some EExpectedParens)
    | ArgsList [] false => (st, None)                 (* meta::parser: empty input is fine *)
    | ArgsList [] true => (st, Some EMetaSyntax)      (* `#[collect(,)]` *)
    | ArgsList items tc => nested_loop st items tc
    end.
End NestedMeta.

(* ------------------------------------------------------------------------------------------ *)
(* 4. The type-level attribute                                                                 *)
(* ------------------------------------------------------------------------------------------ *)

Record top_state : Type :=
  { ts_mode : option mode; ts_bound : option bound_lit; ts_gc_lifetime : option string }.

Definition top_init : top_state :=
  {| ts_mode := None; ts_bound := None; ts_gc_lifetime := None |}.

Definition mode_of_ident (p : string) : option mode :=
  if is_ident p "require_static" then Some RequireStatic
  else if is_ident p "no_drop" then Some NoDrop
  else if is_ident p "unsafe_drop" then Some UnsafeDrop
  else None.

(* lib.rs: the closure given to attr.parse_nested_meta for the type's attribute *)
Definition top_logic (st : top_state) (it : meta_item) (_input_empty : bool)
  : result (top_state * bool) derive_error :=
  if is_ident (mi_path it) "bound" then
    match ts_bound st with
    | Some _ => Err EMultipleBounds
    | None =>
        match mi_tail it with
        | TailEqStr b =>
            Ok ({| ts_mode := ts_mode st; ts_bound := Some b; ts_gc_lifetime := ts_gc_lifetime st |}, true)
        | _ => Err EMetaSyntax                       (* meta.value()?.parse::<LitStr>()? *)
        end
    end
  else if is_ident (mi_path it) "gc_lifetime" then
    match ts_gc_lifetime st with
    | Some _ => Err EMultipleGcLifetimes
    | None =>
        match mi_tail it with
        | TailEqLifetime l =>
            Ok ({| ts_mode := ts_mode st; ts_bound := ts_bound st; ts_gc_lifetime := Some l |}, true)
        | _ => Err EMetaSyntax                       (* meta.value()?.parse::<Lifetime>()? *)
        end
    end
  else
    (* meta.input.parse::<Nothing>() always succeeds and consumes nothing *)
    match ts_mode st with
    | Some _ => Err EMultipleModes
    | None =>
        match mode_of_ident (mi_path it) with
        | Some m =>
            Ok ({| ts_mode := Some m; ts_bound := ts_bound st; ts_gc_lifetime := ts_gc_lifetime st |}, false)
        | None => Err EUnknownOption
        end
    end.

(* lib.rs: let result = match find_collect_meta(&s.ast().attrs) { ... } *)
Definition parse_top (s : shape) : result top_state derive_error :=
  match find_collect_meta (s_attrs s) with
  | Err e => Err e
  | Ok None => Ok top_init
  | Ok (Some a) =>
      match parse_nested_meta top_logic top_init a with
      | (_, Some e) => Err e
      | (st, None) => Ok st
      end
  end.

(* ------------------------------------------------------------------------------------------ *)
(* 5. Fields: `filter`, static bindings                                                        *)
(* ------------------------------------------------------------------------------------------ *)

(* lib.rs: the closure given to attr.parse_nested_meta inside impl_struct.filter.
   State = (static_binding, types pushed to static_bindings by this field). *)
Definition field_logic (t : ty) (st : bool * list ty) (it : meta_item) (input_empty : bool)
  : result ((bool * list ty) * bool) derive_error :=
  if input_empty && is_ident (mi_path it) "require_static"
  then Ok ((true, snd st ++ [t]), false)
  else Err EFieldAttr.

(* lib.rs: impl_struct.filter(|b| match find_collect_meta(&b.ast().attrs) {...})
   returns (retain?, static_bindings pushed, errors pushed). *)
Definition filter_field (f : field) : bool * list ty * list derive_error :=
  match find_collect_meta (f_attrs f) with
  | Ok (Some a) =>
      match parse_nested_meta (field_logic (f_ty f)) (false, []) a with
      | ((static_binding, pushed), None) => (negb static_binding, pushed, [])
      | ((static_binding, pushed), Some e) => (negb static_binding, pushed, [e])
      end
  | Ok None => (true, [], [])
  | Err e => (true, [], [e])
  end.

Fixpoint index_from (n : nat) (fs : list field) : list binding :=
  match fs with
  | [] => []
  | f :: rest => {| b_index := n; b_field := f |} :: index_from (S n) rest
  end.

(* VariantInfo::new: one binding per field, `__binding_i` *)
Definition bindings_of (v : variant) : list binding := index_from 0 (v_fields v).

(* Vec::retain over the bindings of one variant, threading the side effects in order *)
Fixpoint filter_bindings (bs : list binding) : list binding * list ty * list derive_error :=
  match bs with
  | [] => ([], [], [])
  | b :: rest =>
      let '(keep, pushed, errs) := filter_field (b_field b) in
      let '(kept, pushed', errs') := filter_bindings rest in
      ((if keep then b :: kept else kept), pushed ++ pushed', errs ++ errs')
  end.

(* A variant after `filter` *)
Record fvariant : Type := { fv_variant : variant; fv_bindings : list binding }.

(* Structure::filter: variants in order *)
Fixpoint filter_variants (vs : list variant) : list fvariant * list ty * list derive_error :=
  match vs with
  | [] => ([], [], [])
  | v :: rest =>
      let '(kept, pushed, errs) := filter_bindings (bindings_of v) in
      let '(fvs, pushed', errs') := filter_variants rest in
      ({| fv_variant := v; fv_bindings := kept |} :: fvs, pushed ++ pushed', errs ++ errs')
  end.

(* lib.rs: if let syn::Data::Enum(..) = ... { for v in variants { for attr in v.ast().attrs {
            if attr.path().is_ident("collect") { errors.push(...) } } } } *)
Definition variant_attr_errors (s : shape) : list derive_error :=
  if is_enum s then
    flat_map (fun v =>
      flat_map (fun a => if is_ident (a_path a) "collect" then [EVariantAttr] else []) (v_attrs v))
      (variants s)
  else [].

(* ------------------------------------------------------------------------------------------ *)
(* 6. NEEDS_TRACE, trace body                                                                  *)
(* ------------------------------------------------------------------------------------------ *)

(* lib.rs: quote!(false) then, for v in variants, for b in v.bindings():
            `|| <#ty as ::gc_arena::Collect>::NEEDS_TRACE` appended *)
Definition needs_trace_seed : bexpr := BLit false.
Definition needs_trace_step (acc : bexpr) (b : binding) : bexpr := BOr acc (BAtom (f_ty (b_field b))).

Definition needs_trace_expr (fvs : list fvariant) : bexpr :=
  fold_left needs_trace_step (flat_map fv_bindings fvs) needs_trace_seed.

(* VariantInfo::pat: does the pattern end in `..`? *)
Fixpoint last_index_succ (bs : list binding) (acc : nat) : nat :=
  match bs with
  | [] => acc
  | b :: rest => last_index_succ rest (S (b_index b))
  end.

Definition pattern_rest (v : variant) (kept : list binding) : bool :=
  match v_kind v with
  | FUnit => false
  | FUnnamed => negb (Nat.eqb (last_index_succ kept 0) (List.length (v_fields v)))
  | FNamed => negb (Nat.eqb (List.length kept) (List.length (v_fields v)))   (* omitted_bindings() *)
  end.

(* Structure::each / VariantInfo::each with the closure of lib.rs:
     { let bi = #bi; cc.trace(bi); }
   [sel] is the identity in the real model; it exists only so that Props/C15.v can exhibit a
   deliberately wrong variant (skip the last binding) that the theorems reject. *)
Definition each_variant (sel : list binding -> list binding) (fv : fvariant) : trace_arm :=
  {| ta_variant := v_name (fv_variant fv);
     ta_kind := v_kind (fv_variant fv);
     ta_bound := fv_bindings fv;
     ta_rest := pattern_rest (fv_variant fv) (fv_bindings fv);
     ta_body := map CcTrace (sel (fv_bindings fv)) |}.

(* ------------------------------------------------------------------------------------------ *)
(* 7. Lifetimes, generics, bounds                                                              *)
(* ------------------------------------------------------------------------------------------ *)

Definition lifetimes_of (gs : list gparam) : list string :=
  flat_map (fun g => match g with GLifetime n _ => [n] | _ => [] end) gs.

Definition type_params_of (gs : list gparam) : list string :=
  flat_map (fun g => match g with GType n _ => [n] | _ => [] end) gs.

(* lib.rs: if gc_lifetime.is_none() { ... all_lifetimes.next() ... panic!(...) } *)
Definition select_gc_lifetime (explicit : option string) (gs : list gparam)
  : result (option string) derive_error :=
  match explicit with
  | Some l => Ok (Some l)
  | None =>
      match lifetimes_of gs with
      | [] => Ok None
      | [l] => Ok (Some l)
      | _ :: _ :: _ => Err EPanicMultipleLifetimes
      end
  end.

(* synstructure merge_generics: the impl header's own generics, then the type's; a lifetime or a
   type parameter declared twice is a conflict (compile_error! instead of the impl). *)
Definition gparam_conflicts (a b : gparam) : bool :=
  match a, b with
  | GLifetime x _, GLifetime y _ => String.eqb x y
  | GType x _, GType y _ => String.eqb x y
  | _, _ => false
  end.

Definition merge_generics (header : list gparam) (own : list gparam) : option (list gparam) :=
  if existsb (fun p => existsb (fun h => gparam_conflicts h p) header) own
  then None else Some (header ++ own).

(* identifiers occurring in a type (syn::visit::Visit::visit_ident reaches path segments, lifetime
   names, ...) *)
Fixpoint ty_idents (t : ty) : list string :=
  match t with
  | TyPath segs lts args =>
      segs ++ lts ++ (fix go (l : list ty) : list string :=
                        match l with [] => [] | x :: r => ty_idents x ++ go r end) args
  | TyTuple elems =>
      (fix go (l : list ty) : list string :=
         match l with [] => [] | x :: r => ty_idents x ++ go r end) elems
  | TyRef lt inner => (match lt with Some l => [l] | None => [] end) ++ ty_idents inner
  | TyArray elem _ => ty_idents elem
  | TyMacro _ => []
  | TyOther _ ids => ids
  end.

Fixpoint ty_has_macro (t : ty) : bool :=
  match t with
  | TyPath _ _ args =>
      (fix go (l : list ty) : bool := match l with [] => false | x :: r => ty_has_macro x || go r end) args
  | TyTuple elems =>
      (fix go (l : list ty) : bool := match l with [] => false | x :: r => ty_has_macro x || go r end) elems
  | TyRef _ inner => ty_has_macro inner
  | TyArray elem _ => ty_has_macro elem
  | TyMacro _ => true
  | TyOther _ _ => false
  end.

Definition mem_string (x : string) (l : list string) : bool := existsb (String.eqb x) l.

(* BindingInfo::referenced_ty_params: in the order of the generics list *)
Definition referenced_ty_params (gs : list gparam) (t : ty) : list string :=
  filter (fun p => ty_has_macro t || mem_string p (ty_idents t)) (type_params_of gs).

Fixpoint dedup (seen : list string) (l : list string) : list string :=
  match l with
  | [] => []
  | x :: r => if mem_string x seen then dedup seen r else x :: dedup (x :: seen) r
  end.

(* Structure::add_trait_bounds with AddBounds::Generics: for every *remaining* binding, every type
   parameter it references, once. *)
Definition generic_bounds (gs : list gparam) (fvs : list fvariant) (lt : string) : list where_pred :=
  map (fun p => WParamCollect p lt)
      (dedup [] (flat_map (fun b => referenced_ty_params gs (f_ty (b_field b))) (flat_map fv_bindings fvs))).

(* ------------------------------------------------------------------------------------------ *)
(* 8. collect_derive                                                                           *)
(* ------------------------------------------------------------------------------------------ *)

Definition own_where (s : shape) : list where_pred := map WVerbatim (s_where s).

(* lib.rs: let drop_impl = if mode == Mode::NoDrop { ... gen impl ::gc_arena::__MustNotImplDrop for @Self {} } *)
Definition drop_impl_of (m : mode) (s : shape) : option drop_guard :=
  match m with
  | NoDrop => Some {| dg_generics := s_generics s; dg_where := own_where s |}
  | _ => None
  end.

(* lib.rs: the `if mode == Mode::RequireStatic` arm of collect_impl *)
Definition require_static_impl (s : shape) : option collect_impl * list derive_error :=
  match merge_generics [GLifetime "gc" ""] (s_generics s) with
  | None => (None, [EMergeConflict])
  | Some gs =>
      (Some {| ci_generics := gs;
               ci_gc_lifetime := "gc";
               ci_where := WSelfStatic :: own_where s;       (* where Self: 'static, then own *)
               ci_needs_trace := BLit false;
               ci_trace := None |}, [])
  end.

Definition bound_preds (b : option bound_lit) : list where_pred :=
  match b with
  | Some (BoundWhere ps) => map WVerbatim ps
  | _ => []
  end.

Definition bound_malformed (b : option bound_lit) : bool :=
  match b with Some BoundMalformed => true | _ => false end.

(* lib.rs: the `else` arm of collect_impl.  Result: a panic, or (impl, errors). *)
Definition tracing_impl (sel : list binding -> list binding) (st : top_state) (s : shape)
  : result (option collect_impl * list derive_error) derive_error :=
  let '(fvs, static_bindings, field_errors) := filter_variants (variants s) in
  let errors := field_errors ++ variant_attr_errors s in
  let needs_trace := needs_trace_expr fvs in
  let trace_body := map (each_variant sel) fvs in
  match select_gc_lifetime (ts_gc_lifetime st) (s_generics s) with
  | Err e => Err e
  | Ok gc_lifetime =>
      if bound_malformed (ts_bound st) then Err EPanicBound else
      let header := match gc_lifetime with Some _ => [] | None => [GLifetime "gc" ""] end in
      let lt := match gc_lifetime with Some l => l | None => "gc" end in
      match merge_generics header (s_generics s) with
      | None => Ok (None, EMergeConflict :: errors)
      | Some gs =>
          let generated :=
            match ts_bound st with
            | Some _ => []                                        (* AddBounds::None *)
            | None => generic_bounds (s_generics s) fvs lt        (* AddBounds::Generics *)
            end in
          Ok (Some {| ci_generics := gs;
                      ci_gc_lifetime := lt;
                      ci_where := bound_preds (ts_bound st) ++ own_where s
                                    ++ map WTyStatic static_bindings ++ generated;
                      ci_needs_trace := needs_trace;
                      ci_trace := Some trace_body |}, errors)
      end
  end.

(* The whole macro, including synstructure's decl_derive! wrapper (union check). *)
Definition derive_full_with (sel : list binding -> list binding) (s : shape) : derive_outcome :=
  if is_union s then DOutput None None [EUnion] else
  match parse_top s with
  | Err e => DOutput None None [e]                    (* return err.to_compile_error() *)
  | Ok st =>
      match ts_mode st with
      | None => DPanic EPanicMissingMode
      | Some RequireStatic =>
          let '(ci, errs) := require_static_impl s in
          DOutput ci (drop_impl_of RequireStatic s) errs
      | Some m =>
          match tracing_impl sel st s with
          | Err e => DPanic e
          | Ok (ci, errs) =>
              (* the conflicting-generics compile_error replaces the impl and comes first *)
              DOutput ci (drop_impl_of m s) errs
          end
      end
  end.

Definition derive_full : shape -> derive_outcome := derive_full_with (fun bs => bs).

(* Accepted by the macro = an impl and no compile_error!/panic. *)
Definition derive_with (sel : list binding -> list binding) (s : shape)
  : result gen_impl (list derive_error) :=
  match derive_full_with sel s with
  | DPanic e => Err [e]
  | DOutput (Some ci) dg [] => Ok {| g_collect := ci; g_drop_guard := dg |}
  | DOutput _ _ errs => Err errs
  end.

Definition derive : shape -> result gen_impl (list derive_error) := derive_with (fun bs => bs).

(* ------------------------------------------------------------------------------------------ *)
(* 9. Specification-level vocabulary (independent of the parsing functions above)              *)
(* ------------------------------------------------------------------------------------------ *)

Definition is_collect_attr (a : attr) : bool := String.eqb (a_path a) "collect".

(* exactly `#[collect(require_static)]` *)
Definition attr_is_require_static (a : attr) : bool :=
  is_collect_attr a &&
  match a_args a with
  | ArgsList [it] false => String.eqb (mi_path it) "require_static" && tail_is_none (mi_tail it)
  | _ => false
  end.

(* `#[collect()]`: parses, says nothing *)
Definition attr_is_empty_list (a : attr) : bool :=
  match a_args a with ArgsList [] false => true | _ => false end.

Definition field_require_static (f : field) : bool := existsb attr_is_require_static (f_attrs f).

Definition is_mode_ident (p : string) : bool :=
  String.eqb p "require_static" || String.eqb p "no_drop" || String.eqb p "unsafe_drop".

Definition attr_item_paths (a : attr) : list string :=
  match a_args a with ArgsList items _ => map mi_path items | _ => [] end.

(* the mode identifiers written in the type's #[collect(...)] attributes, in order *)
Definition mode_idents_of (s : shape) : list string :=
  flat_map (fun a => if is_collect_attr a then filter is_mode_ident (attr_item_paths a) else [])
           (s_attrs s).

Definition has_gc_lifetime_item (s : shape) : bool :=
  existsb (fun a => is_collect_attr a && mem_string "gc_lifetime" (attr_item_paths a)) (s_attrs s).

Definition has_bound_item (s : shape) : bool :=
  existsb (fun a => is_collect_attr a && mem_string "bound" (attr_item_paths a)) (s_attrs s).

Definition require_static_mode (s : shape) : bool := mem_string "require_static" (mode_idents_of s).

(* The bindings the property demands be traced for a variant. *)
Definition spec_traced (s : shape) (v : variant) : list binding :=
  if require_static_mode s then []
  else filter (fun b => negb (field_require_static (b_field b))) (bindings_of v).

Definition spec_traced_fields (s : shape) : list field :=
  flat_map (fun v => map b_field (spec_traced s v)) (variants s).

(* What an emitted impl traces for the i-th variant. *)
Definition stmt_binding (st : trace_stmt) : binding := match st with CcTrace b => b end.

Definition traced_bindings (g : gen_impl) (i : nat) : list binding :=
  match ci_trace (g_collect g) with
  | None => []                                         (* default `fn trace` does nothing *)
  | Some arms =>
      match nth_error arms i with
      | Some arm => map stmt_binding (ta_body arm)
      | None => []
      end
  end.

Definition is_err {A E} (r : result A E) : Prop := exists e, r = Err e.

(* The rejection clauses of the property as a decidable predicate (used by the correspondence
   check to decide which side is wrong when model and implementation disagree on a verdict):
   the names of the clauses of C15_rejects_in_macro whose hypotheses hold for [s]. *)
Definition reject_clauses (s : shape) : list string :=
  (if is_union s then ["union"] else [])
  ++ (if Nat.eqb (List.length (mode_idents_of s)) 0 then ["missing_mode"] else [])
  ++ (if Nat.leb 2 (List.length (mode_idents_of s)) then ["two_modes"] else [])
  ++ (if Nat.leb 2 (List.length (filter is_collect_attr (s_attrs s))) then ["dup_type_attr"] else [])
  ++ (if require_static_mode s then [] else
        (if is_enum s && existsb (fun v => existsb is_collect_attr (v_attrs v)) (variants s)
         then ["variant_attr"] else [])
        ++ (if existsb (fun v => existsb (fun f =>
                 existsb (fun a => is_collect_attr a && negb (attr_is_require_static a) && negb (attr_is_empty_list a))
                         (f_attrs f)) (v_fields v)) (variants s)
            then ["field_attr"] else [])
        ++ (if existsb (fun v => existsb (fun f => Nat.leb 2 (List.length (filter is_collect_attr (f_attrs f))))
                                         (v_fields v)) (variants s)
            then ["dup_field_attr"] else [])
        ++ (if Nat.leb 2 (List.length (lifetimes_of (s_generics s))) && negb (has_gc_lifetime_item s)
            then ["lifetimes"] else [])).

Definition spec_must_reject (s : shape) : bool :=
  match reject_clauses s with [] => false | _ => true end.
