(* DeriveProofs.v -- lemmas about ModelDerive.v; the property theorems are restated in Props/C15.v *)
From Coq Require Import List String Bool Arith Lia.
From GADerive Require Import ModelDerive.
Import ListNotations.
Local Open Scope string_scope.
Local Open Scope list_scope.

(* ------------------------------------------------------------------------------------------ *)
(* find_collect_meta                                                                           *)
(* ------------------------------------------------------------------------------------------ *)

Definition collects (attrs : list attr) : list attr := filter is_collect_attr attrs.

Lemma find_from_char : forall attrs found,
  find_collect_meta_from found attrs =
  match collects attrs with
  | [] => Ok found
  | a :: rest =>
      match found with
      | Some _ => Err EMultipleCollectAttrs
      | None => match rest with [] => Ok (Some a) | _ :: _ => Err EMultipleCollectAttrs end
      end
  end.
Proof.
  induction attrs as [|a attrs IH]; intros found; simpl; [reflexivity|].
  unfold is_ident, is_collect_attr.
  destruct (String.eqb (a_path a) "collect") eqn:E; simpl.
  - destruct found; [reflexivity|]. rewrite IH. fold (collects attrs).
    destruct (collects attrs); reflexivity.
  - apply IH.
Qed.

Lemma find_char : forall attrs,
  find_collect_meta attrs =
  match collects attrs with
  | [] => Ok None
  | [a] => Ok (Some a)
  | _ :: _ :: _ => Err EMultipleCollectAttrs
  end.
Proof. intros. unfold find_collect_meta. rewrite find_from_char. destruct (collects attrs) as [|a [|b r]]; reflexivity. Qed.

Lemma existsb_collects : forall (X : attr -> bool) attrs,
  existsb (fun a => is_collect_attr a && X a) attrs = existsb X (collects attrs).
Proof.
  induction attrs as [|a attrs IH]; simpl; [reflexivity|].
  destruct (is_collect_attr a); simpl; rewrite IH; reflexivity.
Qed.

Lemma flat_map_collects : forall {B} (F : attr -> list B) attrs,
  flat_map (fun a => if is_collect_attr a then F a else []) attrs = flat_map F (collects attrs).
Proof.
  induction attrs as [|a attrs IH]; simpl; [reflexivity|].
  destruct (is_collect_attr a); simpl; rewrite IH; reflexivity.
Qed.

Lemma collects_In : forall a attrs, In a (collects attrs) <-> In a attrs /\ is_collect_attr a = true.
Proof. intros. unfold collects. apply filter_In. Qed.

(* ------------------------------------------------------------------------------------------ *)
(* Field attribute parsing                                                                     *)
(* ------------------------------------------------------------------------------------------ *)

Definition attr_rs_inner (a : attr) : bool :=
  match a_args a with
  | ArgsList [it] false => String.eqb (mi_path it) "require_static" && tail_is_none (mi_tail it)
  | _ => false
  end.

Lemma attr_is_rs_split : forall a, attr_is_require_static a = is_collect_attr a && attr_rs_inner a.
Proof. reflexivity. Qed.

Lemma parse_field_attr_cases : forall t a,
  (attr_rs_inner a = true /\ parse_nested_meta (field_logic t) (false, []) a = ((true, [t]), None)) \/
  (attr_rs_inner a = false /\ attr_is_empty_list a = true /\
     parse_nested_meta (field_logic t) (false, []) a = ((false, []), None)) \/
  (attr_rs_inner a = false /\ attr_is_empty_list a = false /\
     exists e, parse_nested_meta (field_logic t) (false, []) a = ((false, []), Some e)).
Proof.
  intros t a. unfold attr_rs_inner, attr_is_empty_list, parse_nested_meta.
  destruct (a_args a) as [| |[|it [|it2 rest]] [|]]; simpl;
    unfold field_logic, is_ident; simpl;
    try (destruct (tail_is_none (mi_tail it)); simpl);
    try (destruct (String.eqb (mi_path it) "require_static"); simpl);
    try (left; split; reflexivity);
    try (right; left; repeat split; reflexivity);
    try (right; right; repeat split; eauto; fail).
Qed.

(* filter_field, by cases on the field's collect attributes *)
Lemma filter_field_char : forall f,
  match collects (f_attrs f) with
  | [] => filter_field f = (true, [], []) /\ field_require_static f = false
  | [a] =>
      (attr_rs_inner a = true /\ filter_field f = (false, [f_ty f], []) /\ field_require_static f = true) \/
      (attr_rs_inner a = false /\ attr_is_empty_list a = true /\
         filter_field f = (true, [], []) /\ field_require_static f = false) \/
      (attr_rs_inner a = false /\ attr_is_empty_list a = false /\
         (exists e, filter_field f = (true, [], [e])) /\ field_require_static f = false)
  | _ :: _ :: _ => filter_field f = (true, [], [EMultipleCollectAttrs])
  end.
Proof.
  intros f. unfold filter_field, field_require_static.
  rewrite find_char.
  assert (H : existsb attr_is_require_static (f_attrs f) = existsb attr_rs_inner (collects (f_attrs f))).
  { rewrite <- existsb_collects. reflexivity. }
  rewrite H. clear H.
  destruct (collects (f_attrs f)) as [|a [|b r]]; simpl.
  - split; reflexivity.
  - rewrite orb_false_r.
    destruct (parse_field_attr_cases (f_ty f) a) as [[Hr Hp]|[[Hr [He Hp]]|[Hr [He [e Hp]]]]]; rewrite Hp, Hr.
    + left. repeat split; reflexivity.
    + right; left. repeat split; try reflexivity; assumption.
    + right; right. repeat split; try assumption; eauto.
  - reflexivity.
Qed.

Lemma filter_field_ok : forall f keep pushed,
  filter_field f = (keep, pushed, []) ->
  keep = negb (field_require_static f) /\
  pushed = (if field_require_static f then [f_ty f] else []).
Proof.
  intros f keep pushed H. pose proof (filter_field_char f) as C.
  destruct (collects (f_attrs f)) as [|a [|b r]].
  - destruct C as [C1 C2]. rewrite C1 in H. inversion H; subst. rewrite C2. split; reflexivity.
  - destruct C as [[_ [C1 C2]]|[[_ [_ [C1 C2]]]|[_ [_ [[e C1] C2]]]]]; rewrite C1 in H; inversion H; subst;
      rewrite C2; split; reflexivity.
  - rewrite C in H. inversion H.
Qed.

(* ------------------------------------------------------------------------------------------ *)
(* filter over bindings and variants                                                           *)
(* ------------------------------------------------------------------------------------------ *)

Definition keep_binding (b : binding) : bool := negb (field_require_static (b_field b)).
Definition static_ty_of (b : binding) : list ty :=
  if field_require_static (b_field b) then [f_ty (b_field b)] else [].

Lemma filter_bindings_ok : forall bs kept pushed,
  filter_bindings bs = (kept, pushed, []) ->
  kept = filter keep_binding bs /\ pushed = flat_map static_ty_of bs.
Proof.
  induction bs as [|b bs IH]; intros kept pushed H; simpl in H.
  - inversion H; subst. split; reflexivity.
  - destruct (filter_field (b_field b)) as [[keep p1] e1] eqn:Ef.
    destruct (filter_bindings bs) as [[k2 p2] e2] eqn:Eb.
    inversion H; subst. apply app_eq_nil in H3. destruct H3; subst.
    destruct (filter_field_ok _ _ _ Ef) as [Hk Hp].
    destruct (IH _ _ eq_refl) as [Hk2 Hp2].
    rewrite Hk, Hp, Hk2, Hp2. split; reflexivity.
Qed.

Lemma filter_bindings_errs_app : forall bs kept pushed errs,
  filter_bindings bs = (kept, pushed, errs) ->
  forall b, In b bs -> forall e, In e (snd (filter_field (b_field b))) -> In e errs.
Proof.
  induction bs as [|b0 bs IH]; intros kept pushed errs H b Hin e He; [inversion Hin|].
  simpl in H.
  destruct (filter_field (b_field b0)) as [[keep p1] e1] eqn:Ef.
  destruct (filter_bindings bs) as [[k2 p2] e2] eqn:Eb.
  inversion H; subst. apply in_or_app.
  destruct Hin as [->|Hin].
  - left. rewrite Ef in He. exact He.
  - right. eapply IH; eauto.
Qed.

Definition fv_spec (v : variant) : fvariant :=
  {| fv_variant := v; fv_bindings := filter keep_binding (bindings_of v) |}.

Lemma filter_variants_ok : forall vs fvs pushed,
  filter_variants vs = (fvs, pushed, []) ->
  fvs = map fv_spec vs /\
  pushed = flat_map (fun v => flat_map static_ty_of (bindings_of v)) vs.
Proof.
  induction vs as [|v vs IH]; intros fvs pushed H; simpl in H.
  - inversion H; subst. split; reflexivity.
  - destruct (filter_bindings (bindings_of v)) as [[k p1] e1] eqn:Eb.
    destruct (filter_variants vs) as [[f2 p2] e2] eqn:Ev.
    inversion H; subst. apply app_eq_nil in H3. destruct H3; subst.
    destruct (filter_bindings_ok _ _ _ Eb) as [Hk Hp].
    destruct (IH _ _ eq_refl) as [Hf Hp2]. subst.
    split; reflexivity.
Qed.

Lemma filter_variants_errs : forall vs fvs pushed errs,
  filter_variants vs = (fvs, pushed, errs) ->
  forall v b, In v vs -> In b (bindings_of v) ->
  forall e, In e (snd (filter_field (b_field b))) -> In e errs.
Proof.
  induction vs as [|v0 vs IH]; intros fvs pushed errs H v b Hv Hb e He; [inversion Hv|].
  simpl in H.
  destruct (filter_bindings (bindings_of v0)) as [[k p1] e1] eqn:Eb.
  destruct (filter_variants vs) as [[f2 p2] e2] eqn:Ev.
  inversion H; subst. apply in_or_app.
  destruct Hv as [->|Hv].
  - left. eapply filter_bindings_errs_app; eauto.
  - right. eapply IH; eauto.
Qed.

Lemma index_from_fields : forall fs n, map b_field (index_from n fs) = fs.
Proof. induction fs; intros; simpl; [reflexivity|]. rewrite IHfs. reflexivity. Qed.

Lemma bindings_of_fields : forall v, map b_field (bindings_of v) = v_fields v.
Proof. intros. apply index_from_fields. Qed.

Lemma index_from_indices : forall fs n, map b_index (index_from n fs) = seq n (List.length fs).
Proof. induction fs; intros; simpl; [reflexivity|]. rewrite IHfs. reflexivity. Qed.

Lemma In_bindings_of : forall v f, In f (v_fields v) -> exists b, In b (bindings_of v) /\ b_field b = f.
Proof.
  intros v f H. rewrite <- bindings_of_fields in H. apply in_map_iff in H.
  destruct H as [b [Hb Hin]]. eauto.
Qed.

(* ------------------------------------------------------------------------------------------ *)
(* The type-level attribute                                                                    *)
(* ------------------------------------------------------------------------------------------ *)

Definition mode_ident (m : mode) : string :=
  match m with RequireStatic => "require_static" | NoDrop => "no_drop" | UnsafeDrop => "unsafe_drop" end.

Lemma mode_of_ident_some : forall p m, mode_of_ident p = Some m -> p = mode_ident m.
Proof.
  intros p m. unfold mode_of_ident, is_ident.
  destruct (String.eqb p "require_static") eqn:E1; [intros H; inversion H; apply String.eqb_eq in E1; subst; reflexivity|].
  destruct (String.eqb p "no_drop") eqn:E2; [intros H; inversion H; apply String.eqb_eq in E2; subst; reflexivity|].
  destruct (String.eqb p "unsafe_drop") eqn:E3; [intros H; inversion H; apply String.eqb_eq in E3; subst; reflexivity|].
  discriminate.
Qed.

Lemma mode_of_ident_none : forall p, mode_of_ident p = None -> is_mode_ident p = false.
Proof.
  intros p. unfold mode_of_ident, is_mode_ident, is_ident.
  destruct (String.eqb p "require_static"); [discriminate|].
  destruct (String.eqb p "no_drop"); [discriminate|].
  destruct (String.eqb p "unsafe_drop"); [discriminate|]. reflexivity.
Qed.

Lemma is_mode_ident_mode_ident : forall m, is_mode_ident (mode_ident m) = true.
Proof. destruct m; reflexivity. Qed.

(* What a successful run of the type-level closure over the items tells about the items. *)
Definition mode_list (m : option mode) : list string :=
  match m with Some m => [mode_ident m] | None => [] end.

Lemma top_loop_inv : forall items tc st st',
  nested_loop top_logic st items tc = (st', None) ->
  (* modes *)
  mode_list (ts_mode st) ++ filter is_mode_ident (map mi_path items) = mode_list (ts_mode st') /\
  (* gc_lifetime *)
  (ts_gc_lifetime st = None -> mem_string "gc_lifetime" (map mi_path items) = false -> ts_gc_lifetime st' = None) /\
  (* bound *)
  (ts_bound st = None -> mem_string "bound" (map mi_path items) = false -> ts_bound st' = None).
Proof.
  induction items as [|it items IH]; intros tc st st' H; simpl in H.
  - inversion H; subst. rewrite app_nil_r. repeat split; auto.
  - unfold top_logic at 1 in H. unfold is_ident in H.
    destruct (String.eqb (mi_path it) "bound") eqn:Eb.
    { apply String.eqb_eq in Eb.
      destruct (ts_bound st) eqn:Ebs; [inversion H|].
      destruct (mi_tail it) eqn:Et; try (inversion H; fail).
      simpl in H. apply IH in H. simpl in H. destruct H as [Hm [Hg Hb]].
      simpl. rewrite Eb. simpl. repeat split.
      - exact Hm.
      - intros Hg0 Hn. apply Hg; [exact Hg0|]. exact Hn.
      - intros _ Hn. discriminate Hn. }
    destruct (String.eqb (mi_path it) "gc_lifetime") eqn:Eg.
    { apply String.eqb_eq in Eg.
      destruct (ts_gc_lifetime st) eqn:Egs; [inversion H|].
      destruct (mi_tail it) eqn:Et; try (inversion H; fail).
      simpl in H. apply IH in H. simpl in H. destruct H as [Hm [Hg Hb]].
      simpl. rewrite Eg. simpl. repeat split.
      - exact Hm.
      - intros _ Hn. discriminate Hn.
      - intros Hb0 Hn. apply Hb; [exact Hb0|]. exact Hn. }
    destruct (ts_mode st) eqn:Ems; [inversion H|].
    destruct (mode_of_ident (mi_path it)) as [m|] eqn:Emo; [|inversion H].
    simpl in H.
    destruct (tail_is_none (mi_tail it)); [|inversion H].
    apply IH in H. simpl in H. destruct H as [Hm [Hg Hb]].
    pose proof (mode_of_ident_some _ _ Emo) as Hp.
    simpl. rewrite Hp. rewrite is_mode_ident_mode_ident. simpl.
    repeat split.
    + exact Hm.
    + intros Hg0 Hn. apply Hg; [exact Hg0|].
      unfold mem_string in *. simpl in Hn. apply orb_false_iff in Hn. apply Hn.
    + intros Hb0 Hn. apply Hb; [exact Hb0|].
      unfold mem_string in *. simpl in Hn. apply orb_false_iff in Hn. apply Hn.
Qed.

Lemma mode_idents_char : forall s,
  mode_idents_of s = flat_map (fun a => filter is_mode_ident (attr_item_paths a)) (collects (s_attrs s)).
Proof. intros. unfold mode_idents_of. apply flat_map_collects. Qed.

Lemma has_gc_char : forall s,
  has_gc_lifetime_item s = existsb (fun a => mem_string "gc_lifetime" (attr_item_paths a)) (collects (s_attrs s)).
Proof. intros. unfold has_gc_lifetime_item. apply existsb_collects. Qed.

Lemma has_bound_char : forall s,
  has_bound_item s = existsb (fun a => mem_string "bound" (attr_item_paths a)) (collects (s_attrs s)).
Proof. intros. unfold has_bound_item. apply existsb_collects. Qed.

Lemma parse_top_facts : forall s st,
  parse_top s = Ok st ->
  mode_idents_of s = mode_list (ts_mode st) /\
  (has_gc_lifetime_item s = false -> ts_gc_lifetime st = None) /\
  (has_bound_item s = false -> ts_bound st = None).
Proof.
  intros s st H. unfold parse_top in H. rewrite find_char in H.
  rewrite mode_idents_char, has_gc_char, has_bound_char.
  destruct (collects (s_attrs s)) as [|a [|b r]]; [| |inversion H].
  - inversion H; subst. simpl. repeat split; reflexivity.
  - simpl. rewrite app_nil_r, !orb_false_r.
    destruct (parse_nested_meta top_logic top_init a) as [st0 [e|]] eqn:Ep; inversion H; subst.
    unfold parse_nested_meta in Ep. unfold attr_item_paths.
    destruct (a_args a) as [| |items tc]; try (inversion Ep; fail).
    assert (Hl : nested_loop top_logic top_init items tc = (st, None)).
    { destruct items as [|it items]; [|exact Ep].
      destruct tc; inversion Ep; subst. reflexivity. }
    apply top_loop_inv in Hl. simpl in Hl. destruct Hl as [Hm [Hg Hb]].
    repeat split; auto.
Qed.

(* ------------------------------------------------------------------------------------------ *)
(* Inversion of a successful derive                                                            *)
(* ------------------------------------------------------------------------------------------ *)

Definition tracing_collect_impl (sel : list binding -> list binding) (st : top_state) (s : shape)
           (gs : list gparam) (lt : string) : collect_impl :=
  let fvs := map fv_spec (variants s) in
  {| ci_generics := gs;
     ci_gc_lifetime := lt;
     ci_where := bound_preds (ts_bound st) ++ own_where s
                   ++ map WTyStatic (flat_map (fun v => flat_map static_ty_of (bindings_of v)) (variants s))
                   ++ match ts_bound st with
                      | Some _ => []
                      | None => generic_bounds (s_generics s) fvs lt
                      end;
     ci_needs_trace := needs_trace_expr fvs;
     ci_trace := Some (map (each_variant sel) fvs) |}.

Lemma derive_ok_inv : forall sel s g,
  derive_with sel s = Ok g ->
  is_union s = false /\
  exists st m,
    parse_top s = Ok st /\ ts_mode st = Some m /\ mode_idents_of s = [mode_ident m] /\
    g_drop_guard g = drop_impl_of m s /\
    ( (m = RequireStatic /\
       exists gs, merge_generics [GLifetime "gc" ""] (s_generics s) = Some gs /\
         g_collect g = {| ci_generics := gs; ci_gc_lifetime := "gc";
                          ci_where := WSelfStatic :: own_where s;
                          ci_needs_trace := BLit false; ci_trace := None |})
      \/
      (m <> RequireStatic /\
       exists fvs statics gcl gs,
         filter_variants (variants s) = (fvs, statics, []) /\
         variant_attr_errors s = [] /\
         select_gc_lifetime (ts_gc_lifetime st) (s_generics s) = Ok gcl /\
         bound_malformed (ts_bound st) = false /\
         merge_generics (match gcl with Some _ => [] | None => [GLifetime "gc" ""] end) (s_generics s) = Some gs /\
         g_collect g = tracing_collect_impl sel st s gs (match gcl with Some l => l | None => "gc" end)) ).
Proof.
  intros sel s g H. unfold derive_with, derive_full_with in H.
  destruct (is_union s) eqn:Eu; [inversion H|]. split; [reflexivity|].
  destruct (parse_top s) as [st|e] eqn:Ep; [|inversion H].
  destruct (parse_top_facts _ _ Ep) as [Hmodes _].
  destruct (ts_mode st) as [m|] eqn:Em; [|inversion H].
  exists st, m. simpl in Hmodes.
  assert (Hcases :
    (m = RequireStatic /\ exists ci, require_static_impl s = (Some ci, []) /\ g = {| g_collect := ci; g_drop_guard := drop_impl_of m s |}) \/
    (m <> RequireStatic /\ exists ci, tracing_impl sel st s = Ok (Some ci, []) /\ g = {| g_collect := ci; g_drop_guard := drop_impl_of m s |})).
  { destruct m.
    - left. split; [reflexivity|].
      destruct (require_static_impl s) as [[ci|] errs]; destruct errs; inversion H; subst. eauto.
    - right. split; [discriminate|].
      destruct (tracing_impl sel st s) as [[[ci|] errs]|e]; try destruct errs; inversion H; subst. eauto.
    - right. split; [discriminate|].
      destruct (tracing_impl sel st s) as [[[ci|] errs]|e]; try destruct errs; inversion H; subst. eauto. }
  repeat split; auto.
  - destruct Hcases as [[_ [ci [_ ->]]]|[_ [ci [_ ->]]]]; reflexivity.
  - destruct Hcases as [[Hm [ci [Hr ->]]]|[Hm [ci [Ht ->]]]].
    + left. split; [exact Hm|]. unfold require_static_impl in Hr.
      destruct (merge_generics [GLifetime "gc" ""] (s_generics s)) as [gs|]; inversion Hr; subst.
      exists gs. split; reflexivity.
    + right. split; [exact Hm|]. unfold tracing_impl in Ht.
      destruct (filter_variants (variants s)) as [[fvs statics] ferrs] eqn:Ef.
      destruct (select_gc_lifetime (ts_gc_lifetime st) (s_generics s)) as [gcl|e] eqn:Es; [|inversion Ht].
      destruct (bound_malformed (ts_bound st)) eqn:Ebm; [inversion Ht|].
      destruct (merge_generics (match gcl with Some _ => [] | None => [GLifetime "gc" ""] end) (s_generics s)) as [gs|] eqn:Emg;
        [|inversion Ht].
      injection Ht as Hci Herrs. apply app_eq_nil in Herrs. destruct Herrs as [Hfe Hve]. subst ferrs.
      destruct (filter_variants_ok _ _ _ Ef) as [Hfvs Hst].
      exists fvs, statics, gcl, gs.
      split; [reflexivity|]. split; [exact Hve|]. split; [reflexivity|]. split; [reflexivity|].
      split; [exact Emg|].
      simpl. rewrite <- Hci. unfold tracing_collect_impl. rewrite Hfvs, Hst. reflexivity.
Qed.

Lemma require_static_mode_char : forall s m,
  mode_idents_of s = [mode_ident m] ->
  require_static_mode s = match m with RequireStatic => true | _ => false end.
Proof. intros s m H. unfold require_static_mode. rewrite H. destruct m; reflexivity. Qed.

(* ------------------------------------------------------------------------------------------ *)
(* C15_traces_all                                                                              *)
(* ------------------------------------------------------------------------------------------ *)

Lemma spec_traced_non_rs : forall s v,
  require_static_mode s = false -> spec_traced s v = filter keep_binding (bindings_of v).
Proof. intros s v H. unfold spec_traced. rewrite H. reflexivity. Qed.

Lemma map_stmt_binding_CcTrace : forall bs, map stmt_binding (map CcTrace bs) = bs.
Proof. induction bs; simpl; [reflexivity|]. rewrite IHbs. reflexivity. Qed.

(* The statement, for the model parameterised by the binding selector, under the assumption that
   the selector is the identity on the lists it is applied to. *)
Lemma traces_all_sel : forall sel s g,
  (forall bs, sel bs = bs) ->
  derive_with sel s = Ok g ->
  forall i v, nth_error (variants s) i = Some v -> traced_bindings g i = spec_traced s v.
Proof.
  intros sel s g Hsel H i v Hv.
  destruct (derive_ok_inv _ _ _ H) as [_ [st [m [_ [_ [Hmodes [_ Hcase]]]]]]].
  pose proof (require_static_mode_char _ _ Hmodes) as Hrs.
  unfold traced_bindings.
  destruct Hcase as [[Hm [gs [_ Hg]]]|[Hm [fvs [statics [gcl [gs [_ [_ [_ [_ [_ Hg]]]]]]]]]]]; rewrite Hg; simpl.
  - subst m. unfold spec_traced. rewrite Hrs. reflexivity.
  - rewrite !nth_error_map, Hv. simpl. rewrite Hsel, map_stmt_binding_CcTrace.
    rewrite spec_traced_non_rs; [reflexivity|]. rewrite Hrs. destruct m; try reflexivity. contradiction.
Qed.

Theorem traces_all : forall s g,
  derive s = Ok g ->
  List.length (variants s) = match ci_trace (g_collect g) with Some arms => List.length arms | None => List.length (variants s) end /\
  forall i v, nth_error (variants s) i = Some v ->
    traced_bindings g i = spec_traced s v /\
    (* the order is that of the declaration, positions are the original ones *)
    map b_field (spec_traced s v) =
      (if require_static_mode s then [] else filter (fun f => negb (field_require_static f)) (v_fields v)).
Proof.
  intros s g H. split.
  - destruct (derive_ok_inv _ _ _ H) as [_ [st [m [_ [_ [_ [_ Hcase]]]]]]].
    destruct Hcase as [[Hm [gs [_ Hg]]]|[Hm [fvs [statics [gcl [gs [_ [_ [_ [_ [_ Hg]]]]]]]]]]]; rewrite Hg; simpl.
    + reflexivity.
    + rewrite !map_length. reflexivity.
  - intros i v Hv. split.
    + eapply (traces_all_sel (fun bs => bs)); eauto.
    + unfold spec_traced. destruct (require_static_mode s); [reflexivity|].
      rewrite <- (bindings_of_fields v).
      generalize (bindings_of v). induction l as [|b l IH]; simpl; [reflexivity|].
      destruct (field_require_static (b_field b)); simpl; rewrite IH; reflexivity.
Qed.

(* every arm binds exactly what it traces, and names the right variant *)
Theorem trace_arms_shape : forall s g arms,
  derive s = Ok g -> ci_trace (g_collect g) = Some arms ->
  forall i v, nth_error (variants s) i = Some v ->
  exists arm, nth_error arms i = Some arm /\
    ta_variant arm = v_name v /\ ta_kind arm = v_kind v /\
    ta_bound arm = spec_traced s v /\
    ta_body arm = map CcTrace (ta_bound arm).
Proof.
  intros s g arms H Ha i v Hv.
  destruct (derive_ok_inv _ _ _ H) as [_ [st [m [_ [_ [Hmodes [_ Hcase]]]]]]].
  pose proof (require_static_mode_char _ _ Hmodes) as Hrs.
  destruct Hcase as [[Hm [gs [_ Hg]]]|[Hm [fvs [statics [gcl [gs [_ [_ [_ [_ [_ Hg]]]]]]]]]]]; rewrite Hg in Ha; simpl in Ha.
  - discriminate.
  - inversion Ha; subst arms.
    exists (each_variant (fun bs => bs) (fv_spec v)).
    rewrite !nth_error_map, Hv. simpl. repeat split; try reflexivity.
    rewrite spec_traced_non_rs; [reflexivity|]. rewrite Hrs. destruct m; try reflexivity. contradiction.
Qed.

(* ------------------------------------------------------------------------------------------ *)
(* C15_needs_trace                                                                             *)
(* ------------------------------------------------------------------------------------------ *)

Lemma eval_fold_or : forall rho bs acc,
  eval rho (fold_left needs_trace_step bs acc) =
  eval rho acc || existsb (fun b => rho (f_ty (b_field b))) bs.
Proof.
  induction bs as [|b bs IH]; intros acc; simpl.
  - rewrite orb_false_r. reflexivity.
  - rewrite IH. simpl. rewrite orb_assoc. reflexivity.
Qed.

Lemma existsb_flat_map : forall {A B} (F : A -> list B) (P : B -> bool) l,
  existsb P (flat_map F l) = existsb (fun a => existsb P (F a)) l.
Proof.
  induction l; simpl; [reflexivity|]. rewrite existsb_app, IHl. reflexivity.
Qed.

Lemma existsb_map : forall {A B} (F : A -> B) (P : B -> bool) l,
  existsb P (map F l) = existsb (fun a => P (F a)) l.
Proof. induction l; simpl; [reflexivity|]. rewrite IHl. reflexivity. Qed.

Theorem needs_trace_correct : forall s g,
  derive s = Ok g ->
  forall rho, eval rho (ci_needs_trace (g_collect g)) = existsb (fun f => rho (f_ty f)) (spec_traced_fields s).
Proof.
  intros s g H rho.
  destruct (derive_ok_inv _ _ _ H) as [_ [st [m [_ [_ [Hmodes [_ Hcase]]]]]]].
  pose proof (require_static_mode_char _ _ Hmodes) as Hrs.
  unfold spec_traced_fields. rewrite existsb_flat_map.
  destruct Hcase as [[Hm [gs [_ Hg]]]|[Hm [fvs [statics [gcl [gs [_ [_ [_ [_ [_ Hg]]]]]]]]]]]; rewrite Hg; simpl.
  - subst m. unfold spec_traced. rewrite Hrs. simpl.
    induction (variants s); simpl; auto.
  - unfold needs_trace_expr. rewrite eval_fold_or. simpl.
    rewrite existsb_flat_map.
    assert (Hn : require_static_mode s = false) by (rewrite Hrs; destruct m; try reflexivity; contradiction).
    induction (variants s) as [|v vs IH]; simpl; [reflexivity|].
    rewrite IH. f_equal. rewrite spec_traced_non_rs by exact Hn.
    rewrite existsb_map. reflexivity.
Qed.

(* ------------------------------------------------------------------------------------------ *)
(* C15_rejects_in_macro                                                                        *)
(* ------------------------------------------------------------------------------------------ *)

Lemma not_ok_is_err : forall {A E} (r : result A E), (forall a, r <> Ok a) -> is_err r.
Proof. intros A E [a|e] H; [exfalso; eapply H; reflexivity|exists e; reflexivity]. Qed.

Theorem rejects_missing_mode : forall s, mode_idents_of s = [] -> is_err (derive s).
Proof.
  intros s H. apply not_ok_is_err. intros g Hg.
  destruct (derive_ok_inv _ _ _ Hg) as [_ [st [m [_ [_ [Hmodes _]]]]]].
  rewrite H in Hmodes. discriminate.
Qed.

Theorem rejects_two_modes : forall s, 2 <= List.length (mode_idents_of s) -> is_err (derive s).
Proof.
  intros s H. apply not_ok_is_err. intros g Hg.
  destruct (derive_ok_inv _ _ _ Hg) as [_ [st [m [_ [_ [Hmodes _]]]]]].
  rewrite Hmodes in H. simpl in H. lia.
Qed.

Lemma non_rs_case : forall s g,
  derive s = Ok g -> require_static_mode s = false ->
  exists st m fvs statics gcl gs,
    parse_top s = Ok st /\ ts_mode st = Some m /\ m <> RequireStatic /\
    filter_variants (variants s) = (fvs, statics, []) /\
    variant_attr_errors s = [] /\
    select_gc_lifetime (ts_gc_lifetime st) (s_generics s) = Ok gcl /\
    g_collect g = tracing_collect_impl (fun bs => bs) st s gs (match gcl with Some l => l | None => "gc" end).
Proof.
  intros s g Hg Hn.
  destruct (derive_ok_inv _ _ _ Hg) as [_ [st [m [Hp [Hm [Hmodes [_ Hcase]]]]]]].
  pose proof (require_static_mode_char _ _ Hmodes) as Hrs.
  destruct Hcase as [[Hm' _]|[Hm' [fvs [statics [gcl [gs [Hf [Hv [Hs [_ [_ Hc]]]]]]]]]]].
  - subst m. rewrite Hrs in Hn. discriminate.
  - exists st, m, fvs, statics, gcl, gs. repeat split; auto.
Qed.

Theorem rejects_variant_attr : forall s vs v,
  require_static_mode s = false ->
  s_data s = DEnum vs -> In v vs -> existsb is_collect_attr (v_attrs v) = true ->
  is_err (derive s).
Proof.
  intros s vs v Hn Hd Hv Ha. apply not_ok_is_err. intros g Hg.
  destruct (non_rs_case _ _ Hg Hn) as [st [m [fvs [statics [gcl [gs [_ [_ [_ [_ [Hve _]]]]]]]]]]].
  unfold variant_attr_errors, is_enum, variants in Hve. rewrite Hd in Hve.
  apply existsb_exists in Ha. destruct Ha as [a [Hain Hac]].
  assert (Hin : In EVariantAttr
    (flat_map (fun v0 => flat_map (fun a0 => if is_ident (a_path a0) "collect" then [EVariantAttr] else []) (v_attrs v0)) vs)).
  { apply in_flat_map. exists v. split; [exact Hv|]. apply in_flat_map. exists a. split; [exact Hain|].
    unfold is_ident. unfold is_collect_attr in Hac. rewrite Hac. left. reflexivity. }
  rewrite Hve in Hin. inversion Hin.
Qed.

Theorem rejects_bad_field_attr : forall s v f a,
  require_static_mode s = false ->
  In v (variants s) -> In f (v_fields v) -> In a (f_attrs f) ->
  is_collect_attr a = true ->
  attr_is_require_static a = false -> attr_is_empty_list a = false ->
  is_err (derive s).
Proof.
  intros s v f a Hn Hv Hf Ha Hc Hrs He. apply not_ok_is_err. intros g Hg.
  destruct (non_rs_case _ _ Hg Hn) as [st [m [fvs [statics [gcl [gs [_ [_ [_ [Hfv _]]]]]]]]]].
  destruct (In_bindings_of _ _ Hf) as [b [Hb Hbf]].
  assert (Hex : exists e, In e (snd (filter_field (b_field b)))).
  { rewrite Hbf. pose proof (filter_field_char f) as C.
    assert (Hac : In a (collects (f_attrs f))) by (apply collects_In; split; assumption).
    destruct (collects (f_attrs f)) as [|a1 [|a2 r]].
    - inversion Hac.
    - destruct Hac as [->|[]]. rewrite attr_is_rs_split, Hc in Hrs. simpl in Hrs.
      destruct C as [[C0 _]|[[_ [C0 _]]|[_ [_ [[e C1] _]]]]].
      + rewrite C0 in Hrs. discriminate.
      + rewrite C0 in He. discriminate.
      + exists e. rewrite C1. left. reflexivity.
    - exists EMultipleCollectAttrs. rewrite C. left. reflexivity. }
  destruct Hex as [e Hein].
  pose proof (filter_variants_errs _ _ _ _ Hfv v b Hv Hb e Hein) as Hin. inversion Hin.
Qed.

Theorem rejects_duplicate_field_attr : forall s v f,
  require_static_mode s = false ->
  In v (variants s) -> In f (v_fields v) -> 2 <= List.length (collects (f_attrs f)) ->
  is_err (derive s).
Proof.
  intros s v f Hn Hv Hf Hl. apply not_ok_is_err. intros g Hg.
  destruct (non_rs_case _ _ Hg Hn) as [st [m [fvs [statics [gcl [gs [_ [_ [_ [Hfv _]]]]]]]]]].
  destruct (In_bindings_of _ _ Hf) as [b [Hb Hbf]].
  pose proof (filter_field_char f) as C.
  destruct (collects (f_attrs f)) as [|a1 [|a2 r]]; simpl in Hl; try lia.
  assert (Hein : In EMultipleCollectAttrs (snd (filter_field (b_field b)))).
  { rewrite Hbf, C. left. reflexivity. }
  pose proof (filter_variants_errs _ _ _ _ Hfv v b Hv Hb _ Hein) as Hin. inversion Hin.
Qed.

Theorem rejects_lifetimes : forall s,
  require_static_mode s = false ->
  2 <= List.length (lifetimes_of (s_generics s)) -> has_gc_lifetime_item s = false ->
  is_err (derive s).
Proof.
  intros s Hn Hl Hgc. apply not_ok_is_err. intros g Hg.
  destruct (non_rs_case _ _ Hg Hn) as [st [m [fvs [statics [gcl [gs [Hp [_ [_ [_ [_ [Hs _]]]]]]]]]]]].
  destruct (parse_top_facts _ _ Hp) as [_ [Hgl _]].
  rewrite (Hgl Hgc) in Hs. unfold select_gc_lifetime in Hs.
  destruct (lifetimes_of (s_generics s)) as [|l1 [|l2 r]]; simpl in Hl; try lia. discriminate.
Qed.

Theorem rejects_union : forall s, s_data s = DUnion -> is_err (derive s).
Proof.
  intros s H. apply not_ok_is_err. intros g Hg.
  destruct (derive_ok_inv _ _ _ Hg) as [Hu _]. unfold is_union in Hu. rewrite H in Hu. discriminate.
Qed.

Theorem rejects_duplicate_type_attr : forall s, 2 <= List.length (collects (s_attrs s)) -> is_err (derive s).
Proof.
  intros s H. apply not_ok_is_err. intros g Hg.
  destruct (derive_ok_inv _ _ _ Hg) as [_ [st [m [Hp _]]]].
  unfold parse_top in Hp. rewrite find_char in Hp.
  destruct (collects (s_attrs s)) as [|a1 [|a2 r]]; simpl in H; try lia. discriminate.
Qed.

(* ------------------------------------------------------------------------------------------ *)
(* C15_emits_guards                                                                            *)
(* ------------------------------------------------------------------------------------------ *)

Theorem guard_no_drop : forall s g,
  derive s = Ok g ->
  g_drop_guard g =
    if mem_string "no_drop" (mode_idents_of s)
    then Some {| dg_generics := s_generics s; dg_where := map WVerbatim (s_where s) |}
    else None.
Proof.
  intros s g H.
  destruct (derive_ok_inv _ _ _ H) as [_ [st [m [_ [_ [Hmodes [Hd _]]]]]]].
  rewrite Hd, Hmodes. destruct m; reflexivity.
Qed.

Theorem guard_require_static_mode : forall s g,
  derive s = Ok g -> require_static_mode s = true ->
  ci_where (g_collect g) = WSelfStatic :: map WVerbatim (s_where s) /\
  ci_needs_trace (g_collect g) = BLit false /\
  ci_trace (g_collect g) = None.
Proof.
  intros s g H Hrs.
  destruct (derive_ok_inv _ _ _ H) as [_ [st [m [_ [_ [Hmodes [_ Hcase]]]]]]].
  rewrite (require_static_mode_char _ _ Hmodes) in Hrs.
  destruct Hcase as [[Hm [gs [_ Hg]]]|[Hm _]].
  - rewrite Hg. simpl. repeat split; reflexivity.
  - destruct m; try discriminate. contradiction.
Qed.

Theorem guard_static_field : forall s g v f,
  derive s = Ok g -> require_static_mode s = false ->
  In v (variants s) -> In f (v_fields v) -> field_require_static f = true ->
  In (WTyStatic (f_ty f)) (ci_where (g_collect g)).
Proof.
  intros s g v f H Hn Hv Hf Hrs.
  destruct (non_rs_case _ _ H Hn) as [st [m [fvs [statics [gcl [gs [_ [_ [_ [_ [_ [_ Hc]]]]]]]]]]]].
  rewrite Hc. simpl. apply in_or_app. right. apply in_or_app. right. apply in_or_app. left.
  apply in_map. apply in_flat_map. exists v. split; [exact Hv|].
  destruct (In_bindings_of _ _ Hf) as [b [Hb Hbf]].
  apply in_flat_map. exists b. split; [exact Hb|].
  unfold static_ty_of. rewrite Hbf, Hrs. left. reflexivity.
Qed.

(* every binding the specification wants traced is handed to Trace::trace in its arm *)
Theorem guard_traced_passed_to_trace : forall s g i v b,
  derive s = Ok g -> nth_error (variants s) i = Some v -> In b (spec_traced s v) ->
  exists arms arm, ci_trace (g_collect g) = Some arms /\ nth_error arms i = Some arm /\
                   In (CcTrace b) (ta_body arm) /\ In b (ta_bound arm).
Proof.
  intros s g i v b H Hv Hb.
  destruct (ci_trace (g_collect g)) as [arms|] eqn:Ea.
  - destruct (trace_arms_shape _ _ _ H Ea _ _ Hv) as [arm [Hn [_ [_ [Hbound Hbody]]]]].
    exists arms, arm. repeat split; auto.
    + rewrite Hbody, Hbound. apply in_map. exact Hb.
    + rewrite Hbound. exact Hb.
  - exfalso. destruct (traces_all _ _ H) as [_ Ht]. destruct (Ht _ _ Hv) as [Ht1 _].
    unfold traced_bindings in Ht1. rewrite Ea in Ht1. rewrite <- Ht1 in Hb. inversion Hb.
Qed.

Lemma dedup_In : forall l seen x, In x l -> mem_string x seen = false -> In x (dedup seen l).
Proof.
  induction l as [|y l IH]; intros seen x Hin Hs; [inversion Hin|]. simpl.
  destruct (mem_string y seen) eqn:Ey.
  - destruct Hin as [->|Hin]; [rewrite Hs in Ey; discriminate|]. apply IH; assumption.
  - destruct Hin as [->|Hin]; [left; reflexivity|].
    destruct (String.eqb x y) eqn:Exy.
    + apply String.eqb_eq in Exy. subst. left. reflexivity.
    + right. apply IH; [exact Hin|]. unfold mem_string. simpl. rewrite Exy. exact Hs.
Qed.

(* without a bound override, every type parameter mentioned by a traced field is bounded by Collect *)
Theorem guard_generic_bounds : forall s g v b p,
  derive s = Ok g -> require_static_mode s = false -> has_bound_item s = false ->
  In v (variants s) -> In b (spec_traced s v) ->
  In p (referenced_ty_params (s_generics s) (f_ty (b_field b))) ->
  In (WParamCollect p (ci_gc_lifetime (g_collect g))) (ci_where (g_collect g)).
Proof.
  intros s g v b p H Hn Hb Hv Hbin Hp.
  destruct (non_rs_case _ _ H Hn) as [st [m [fvs [statics [gcl [gs [Hpt [_ [_ [_ [_ [_ Hc]]]]]]]]]]]].
  destruct (parse_top_facts _ _ Hpt) as [_ [_ Hbd]]. rewrite Hc. simpl.
  rewrite (Hbd Hb). simpl. apply in_or_app. right. apply in_or_app. right.
  unfold generic_bounds.
  apply (in_map (fun p0 => WParamCollect p0 (match gcl with Some l => l | None => "gc" end))).
  apply dedup_In; [|reflexivity].
  apply in_flat_map. exists b. split; [|exact Hp].
  apply in_flat_map. exists (fv_spec v). split; [apply in_map; exact Hv|].
  simpl. rewrite spec_traced_non_rs in Hbin by exact Hn. exact Hbin.
Qed.

(* the trait's lifetime argument *)
Theorem gc_lifetime_choice : forall s g,
  derive s = Ok g -> require_static_mode s = false -> has_gc_lifetime_item s = false ->
  match lifetimes_of (s_generics s) with
  | [] => ci_gc_lifetime (g_collect g) = "gc"
  | [l] => ci_gc_lifetime (g_collect g) = l
  | _ => False
  end.
Proof.
  intros s g H Hn Hgc.
  destruct (non_rs_case _ _ H Hn) as [st [m [fvs [statics [gcl [gs [Hp [_ [_ [_ [_ [Hs Hc]]]]]]]]]]]].
  destruct (parse_top_facts _ _ Hp) as [_ [Hgl _]]. rewrite (Hgl Hgc) in Hs.
  unfold select_gc_lifetime in Hs. rewrite Hc. simpl.
  destruct (lifetimes_of (s_generics s)) as [|l1 [|l2 r]]; inversion Hs; subst; reflexivity.
Qed.

(* ------------------------------------------------------------------------------------------ *)
(* Packaging used by Props/C15.v                                                               *)
(* ------------------------------------------------------------------------------------------ *)

Lemma trace_none_iff_rs : forall s g,
  derive s = Ok g -> (ci_trace (g_collect g) = None <-> require_static_mode s = true).
Proof.
  intros s g H.
  destruct (derive_ok_inv _ _ _ H) as [_ [st [m [_ [_ [Hmodes [_ Hcase]]]]]]].
  rewrite (require_static_mode_char _ _ Hmodes).
  destruct Hcase as [[Hm [gs [_ Hg]]]|[Hm [fvs [statics [gcl [gs [_ [_ [_ [_ [_ Hg]]]]]]]]]]]; rewrite Hg; simpl.
  - subst m. split; reflexivity.
  - split; [discriminate|]. destruct m; try discriminate. contradiction.
Qed.

Lemma spec_traced_fields_order : forall s v,
  map b_field (spec_traced s v) =
    (if require_static_mode s then [] else filter (fun f => negb (field_require_static f)) (v_fields v)).
Proof.
  intros s v. unfold spec_traced. destruct (require_static_mode s); [reflexivity|].
  rewrite <- (bindings_of_fields v).
  generalize (bindings_of v). induction l as [|b l IH]; simpl; [reflexivity|].
  destruct (field_require_static (b_field b)); simpl; rewrite IH; reflexivity.
Qed.

Lemma filter_sublist_indices : forall (P : binding -> bool) fs n,
  forall b, In b (filter P (index_from n fs)) -> nth_error fs (b_index b - n) = Some (b_field b) /\ n <= b_index b.
Proof.
  induction fs as [|f fs IH]; intros n b Hin; simpl in Hin; [inversion Hin|].
  destruct (P {| b_index := n; b_field := f |}).
  - destruct Hin as [<-|Hin].
    + simpl. rewrite Nat.sub_diag. split; [reflexivity|lia].
    + destruct (IH _ _ Hin) as [Hn Hle]. split; [|lia].
      replace (b_index b - n) with (S (b_index b - S n)) by lia. exact Hn.
  - destruct (IH _ _ Hin) as [Hn Hle]. split; [|lia].
    replace (b_index b - n) with (S (b_index b - S n)) by lia. exact Hn.
Qed.

(* a traced binding's index is the field's original position in the variant *)
Lemma spec_traced_positions : forall s v b,
  In b (spec_traced s v) -> nth_error (v_fields v) (b_index b) = Some (b_field b).
Proof.
  intros s v b H. unfold spec_traced in H. destruct (require_static_mode s); [inversion H|].
  unfold bindings_of in H. apply filter_sublist_indices in H. rewrite Nat.sub_0_r in H. apply H.
Qed.

Theorem traces_all_packaged : forall s g,
  derive s = Ok g ->
  (ci_trace (g_collect g) = None <-> require_static_mode s = true) /\
  (forall arms, ci_trace (g_collect g) = Some arms -> List.length arms = List.length (variants s)) /\
  (forall i v, nth_error (variants s) i = Some v -> traced_bindings g i = spec_traced s v).
Proof.
  intros s g H. split; [apply trace_none_iff_rs; exact H|]. split.
  - intros arms Ha. destruct (traces_all _ _ H) as [Hl _]. rewrite Ha in Hl. symmetry. exact Hl.
  - intros i v Hv. destruct (traces_all _ _ H) as [_ Ht]. apply Ht. exact Hv.
Qed.

(* ------------------------------------------------------------------------------------------ *)
(* the decidable rejection predicate is sound                                                  *)
(* ------------------------------------------------------------------------------------------ *)
Lemma is_union_data : forall s, is_union s = true -> s_data s = DUnion.
Proof. intros s. unfold is_union. destruct (s_data s); try discriminate. reflexivity. Qed.

Theorem spec_must_reject_sound : forall s, spec_must_reject s = true -> is_err (derive s).
Proof.
  intros s H. unfold spec_must_reject in H.
  destruct (reject_clauses s) eqn:E; [discriminate|]. clear H.
  unfold reject_clauses in E.
  destruct (is_union s) eqn:Eu; [apply rejects_union, is_union_data, Eu|].
  destruct (Nat.eqb (List.length (mode_idents_of s)) 0) eqn:E0.
  { apply rejects_missing_mode. apply Nat.eqb_eq in E0. destruct (mode_idents_of s); [reflexivity|discriminate]. }
  destruct (Nat.leb 2 (List.length (mode_idents_of s))) eqn:E2.
  { apply rejects_two_modes. apply Nat.leb_le. exact E2. }
  destruct (Nat.leb 2 (List.length (filter is_collect_attr (s_attrs s)))) eqn:E3.
  { apply rejects_duplicate_type_attr. apply Nat.leb_le. exact E3. }
  cbn [app] in E.
  destruct (require_static_mode s) eqn:Ers; [discriminate|].
  destruct (is_enum s && existsb (fun v => existsb is_collect_attr (v_attrs v)) (variants s)) eqn:E4.
  { apply andb_true_iff in E4. destruct E4 as [Hen Hex].
    apply existsb_exists in Hex. destruct Hex as [v [Hv Ha]].
    unfold is_enum in Hen. unfold variants in Hv.
    destruct (s_data s) as [k fs|vs|] eqn:Ed; try discriminate.
    eapply rejects_variant_attr; eauto. }
  destruct (existsb (fun v => existsb (fun f =>
              existsb (fun a => is_collect_attr a && negb (attr_is_require_static a) && negb (attr_is_empty_list a))
                      (f_attrs f)) (v_fields v)) (variants s)) eqn:E5.
  { apply existsb_exists in E5. destruct E5 as [v [Hv Hf]].
    apply existsb_exists in Hf. destruct Hf as [f [Hf Ha]].
    apply existsb_exists in Ha. destruct Ha as [a [Ha Hc]].
    apply andb_true_iff in Hc. destruct Hc as [Hc He]. apply andb_true_iff in Hc. destruct Hc as [Hc Hr].
    apply negb_true_iff in He. apply negb_true_iff in Hr.
    eapply rejects_bad_field_attr; eauto. }
  destruct (existsb (fun v => existsb (fun f => Nat.leb 2 (List.length (filter is_collect_attr (f_attrs f))))
                                      (v_fields v)) (variants s)) eqn:E6.
  { apply existsb_exists in E6. destruct E6 as [v [Hv Hf]].
    apply existsb_exists in Hf. destruct Hf as [f [Hf Hl]]. apply Nat.leb_le in Hl.
    eapply rejects_duplicate_field_attr; eauto. }
  destruct (Nat.leb 2 (List.length (lifetimes_of (s_generics s))) && negb (has_gc_lifetime_item s)) eqn:E7.
  { apply andb_true_iff in E7. destruct E7 as [Hl Hg]. apply Nat.leb_le in Hl. apply negb_true_iff in Hg.
    apply rejects_lifetimes; assumption. }
  cbn [app] in E. discriminate.
Qed.
