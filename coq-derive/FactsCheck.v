(* FactsCheck.v -- the structural facts that /verif/translator-derive extracts from the CURRENT
   derive/src/lib.rs (Gen/GenDeriveFacts.v, regenerated on every run) agree with the constants and
   the behaviour of the hand-written model.  Checked by computation; fails closed: an `Unknown:..`
   value or a changed fact makes a check `false`, and `derive_facts_agree` then does not compile. *)
From Coq Require Import List String Ascii Bool Arith.
From GADerive Require Import ModelDerive ModelShow.
From GADerive.Gen Require Import GenDeriveFacts.
Import ListNotations.
Local Open Scope string_scope.
Local Open Scope list_scope.

Fixpoint prefixb (p s : string) : bool :=
  match p, s with
  | EmptyString, _ => true
  | String a p', String b s' => Ascii.eqb a b && prefixb p' s'
  | _, _ => false
  end.

Fixpoint containsb (p s : string) : bool :=
  prefixb p s || match s with EmptyString => false | String _ s' => containsb p s' end.

Definition list_eqb (a b : list string) : bool :=
  Nat.eqb (List.length a) (List.length b) && forallb (fun '(x, y) => String.eqb x y) (combine a b).

Definition mode_of_name (n : string) : option mode :=
  if String.eqb n "RequireStatic" then Some RequireStatic
  else if String.eqb n "NoDrop" then Some NoDrop
  else if String.eqb n "UnsafeDrop" then Some UnsafeDrop else None.

Definition mode_eqb (a b : mode) : bool :=
  match a, b with
  | RequireStatic, RequireStatic | NoDrop, NoDrop | UnsafeDrop, UnsafeDrop => true
  | _, _ => false
  end.

(* 1. the identifiers accepted as modes, and which Mode each selects *)
Definition check_modes : bool :=
  Nat.eqb (List.length gen_mode_map) 3 &&
  forallb (fun '(id, v) =>
             match mode_of_ident id, mode_of_name v with
             | Some a, Some b => mode_eqb a b
             | _, _ => false
             end) gen_mode_map &&
  forallb (fun m => existsb (fun '(id, v) => match mode_of_name v with Some b => mode_eqb m b | None => false end) gen_mode_map)
          [RequireStatic; NoDrop; UnsafeDrop].

(* 2. the option identifiers: the model must treat each as an option wanting a value, and the
      model's two options must both be among them *)
Definition wants_value (id : string) : bool :=
  match top_logic top_init {| mi_path := id; mi_tail := TailNone |} true with
  | Err EMetaSyntax => true
  | _ => false
  end.
Definition check_options : bool :=
  Nat.eqb (List.length gen_option_idents) 2 && forallb wants_value gen_option_idents &&
  mem_string "bound" gen_option_idents && mem_string "gc_lifetime" gen_option_idents.

(* 3. the attribute name *)
Definition check_attr : bool :=
  list_eqb gen_helper_attrs ["collect"] &&
  Nat.eqb (List.length gen_attr_idents) 1 &&
  forallb (fun x => match find_collect_meta [ {| a_path := x; a_args := ArgsNone |} ] with
                    | Ok (Some _) => true | _ => false end) gen_attr_idents.

(* 4. fields: the only accepted identifier, and `filter` keeps a field iff the flag was not set *)
Definition probe_ty : ty := TyPath ["X"] [] [].
Definition probe_field (attrs : list attr) : field := {| f_name := None; f_attrs := attrs; f_ty := probe_ty |}.
Definition one_item_attr (x : string) : attr :=
  {| a_path := "collect"; a_args := ArgsList [ {| mi_path := x; mi_tail := TailNone |} ] false |}.
Definition check_field : bool :=
  Nat.eqb (List.length gen_field_attr_idents) 1 &&
  list_eqb gen_filter_flag_set_under gen_field_attr_idents &&
  forallb (fun x => match filter_field (probe_field [one_item_attr x]) with
                    | (false, [_], []) => true | _ => false end) gen_field_attr_idents &&
  match gen_filter_arms with
  | [(p1, t1); (p2, t2); (p3, t3)] =>
      prefixb "Ok(Some(" p1 && String.eqb t1 ("not:" ++ gen_filter_flag) &&
      String.eqb p2 "Ok(None)" && String.eqb t2 "true" &&
      prefixb "Err(" p3 && String.eqb t3 "true" &&
      (* the model's closure returns the same three values *)
      match filter_field (probe_field []) with (true, [], []) => true | _ => false end &&
      match filter_field (probe_field [one_item_attr "require_static"; one_item_attr "require_static"]) with
      | (true, [], [_]) => true | _ => false end
  | _ => false
  end &&
  negb (prefixb "Unknown" gen_filter_flag).

(* 5. NEEDS_TRACE: seed, operator, atom, and where the expression is used *)
Definition probe_binding : binding := {| b_index := 0; b_field := probe_field [] |}.
Definition check_needs_trace : bool :=
  String.eqb (show_bexpr needs_trace_seed) gen_needs_trace_seed &&
  match needs_trace_step (BLit false) probe_binding with
  | BOr (BLit false) (BAtom _) => String.eqb gen_needs_trace_op "||"
  | _ => false
  end &&
  String.eqb gen_needs_trace_atom "<#tyas::gc_arena::Collect>::NEEDS_TRACE" &&
  match gen_needs_trace_inits with
  | rs :: (x :: _) as rest =>
      String.eqb rs (show_bexpr (BLit false)) && prefixb "#" x && forallb (String.eqb x) rest
  | _ => false
  end.

(* 6. the trace body: every binding is handed to Trace::trace, inside `match *self` *)
Definition check_trace : bool :=
  match gen_each_closure with
  | [m] => containsb "cc.trace(bi)" m && containsb "letbi=#bi" m
  | _ => false
  end &&
  negb (Nat.eqb (List.length gen_trace_fn_bodies) 0) &&
  forallb (fun b => prefixb "match*self{#" b) gen_trace_fn_bodies.

(* 7. guards *)
Definition check_guards : bool :=
  existsb (fun '(c, t, e) => String.eqb c "mode==Mode::NoDrop" &&
                             existsb (containsb "::gc_arena::__MustNotImplDropfor@Self{}") t &&
                             list_eqb e [""]) gen_mode_ifs &&
  existsb (fun '(c, t, e) => String.eqb c "mode==Mode::RequireStatic" &&
                             existsb (String.eqb "whereSelf:'static") t) gen_mode_ifs &&
  existsb (fun '(c, t, e) => String.eqb c "mode==Mode::RequireStatic" &&
                             existsb (containsb "constNEEDS_TRACE:bool=false;}") t) gen_mode_ifs &&
  match gen_where_pred_macros with
  | [p] => prefixb "#" p && containsb ":'static" p
  | _ => false
  end.

(* 8. bounds *)
Definition check_bounds : bool :=
  match gen_add_bounds_ifs with
  | [(c, t, e)] => containsb "bound.is_some()" c && String.eqb t "None" && String.eqb e "Generics"
  | _ => false
  end &&
  list_eqb gen_add_bounds_calls ["None"; "None"; "Generics"; "None"].

Definition check_misc : bool :=
  negb (prefixb "Unknown" gen_entry_fn) && Nat.eqb gen_panic_count 2.

Definition facts_report : list (string * bool) :=
  [ ("modes", check_modes); ("options", check_options); ("attr", check_attr); ("field", check_field);
    ("needs_trace", check_needs_trace); ("trace", check_trace); ("guards", check_guards);
    ("bounds", check_bounds); ("misc", check_misc) ].

Definition facts_ok : bool := forallb snd facts_report.

Eval vm_compute in facts_report.

Theorem derive_facts_agree : facts_ok = true.
Proof. vm_compute. reflexivity. Qed.
Print Assumptions derive_facts_agree.
