(* ModelShow.v -- printing the model's prediction for a shape in the line format that the
   correspondence check (scripts/props/c15.py) compares with what the real derive emits / does.
   Definitions only. *)
From Coq Require Import List String Ascii Bool Arith.
From GADerive Require Import ModelDerive.
Import ListNotations.
Local Open Scope string_scope.
Local Open Scope list_scope.

Definition digit (n : nat) : string :=
  match n with
  | 0 => "0" | 1 => "1" | 2 => "2" | 3 => "3" | 4 => "4"
  | 5 => "5" | 6 => "6" | 7 => "7" | 8 => "8" | _ => "9"
  end.

Fixpoint nat_str_aux (fuel n : nat) (acc : string) : string :=
  match fuel with
  | 0 => acc
  | S f =>
      let acc' := (digit (n mod 10) ++ acc)%string in
      match n / 10 with
      | 0 => acc'
      | q => nat_str_aux f q acc'
      end
  end.

Definition nat_str (n : nat) : string := nat_str_aux (S n) n "".

Fixpoint join (sep : string) (l : list string) : string :=
  match l with
  | [] => ""
  | [x] => x
  | x :: r => (x ++ sep ++ join sep r)%string
  end.

(* remove blanks: both sides of the comparison are compared whitespace-free *)
Fixpoint strip (s : string) : string :=
  match s with
  | EmptyString => EmptyString
  | String c r =>
      if (Ascii.eqb c " " || Ascii.eqb c "009" || Ascii.eqb c "010")%bool then strip r else String c (strip r)
  end.

Definition lt_str (l : string) : string := ("'" ++ l)%string.

Fixpoint show_ty (t : ty) : string :=
  match t with
  | TyPath segs lts args =>
      let inner := map lt_str lts ++
                   (fix go (l : list ty) : list string :=
                      match l with [] => [] | x :: r => show_ty x :: go r end) args in
      (join "::" segs ++ match inner with [] => "" | _ => "<" ++ join "," inner ++ ">" end)%string
  | TyTuple elems =>
      let inner := (fix go (l : list ty) : list string :=
                      match l with [] => [] | x :: r => show_ty x :: go r end) elems in
      match inner with
      | [] => "()"
      | [x] => ("(" ++ x ++ ",)")%string
      | _ => ("(" ++ join "," inner ++ ")")%string
      end
  | TyRef lt inner =>
      ("&" ++ match lt with Some l => lt_str l | None => "" end ++ show_ty inner)%string
  | TyArray elem len => ("[" ++ show_ty elem ++ ";" ++ strip len ++ "]")%string
  | TyMacro toks => strip toks
  | TyOther toks _ => strip toks
  end.

Definition show_gparam (g : gparam) : string :=
  match g with
  | GLifetime n b => (lt_str n ++ match strip b with "" => "" | b' => ":" ++ b' end)%string
  | GType n b => (n ++ match strip b with "" => "" | b' => ":" ++ b' end)%string
  | GConst n t => ("const" ++ n ++ ":" ++ strip t)%string
  end.

Definition show_pred (p : where_pred) : string :=
  match p with
  | WSelfStatic => "Self:'static"
  | WVerbatim toks => strip toks
  | WTyStatic t => (show_ty t ++ ":'static")%string
  | WParamCollect p lt => (p ++ ":::gc_arena::Collect<" ++ lt_str lt ++ ">")%string
  end.

Fixpoint show_bexpr (e : bexpr) : string :=
  match e with
  | BLit true => "true"
  | BLit false => "false"
  | BAtom t => ("nt(" ++ show_ty t ++ ")")%string
  | BOr l r => ("or(" ++ show_bexpr l ++ "," ++ show_bexpr r ++ ")")%string
  | BAnd l r => ("and(" ++ show_bexpr l ++ "," ++ show_bexpr r ++ ")")%string
  end.

Definition show_error (e : derive_error) : string :=
  match e with
  | EUnion => "union"
  | EMultipleCollectAttrs => "dup_attr"
  | EExpectedParens => "syntax"
  | EMetaSyntax => "syntax"
  | EMultipleBounds => "multi_bound"
  | EMultipleGcLifetimes => "multi_gc"
  | EMultipleModes => "multi_mode"
  | EUnknownOption => "unknown_option"
  | EFieldAttr => "field_attr"
  | EVariantAttr => "variant_attr"
  | EMergeConflict => "merge_conflict"
  | EPanicMissingMode => "panic_missing_mode"
  | EPanicMultipleLifetimes => "panic_lifetimes"
  | EPanicBound => "panic_bound"
  end.

Definition show_kind (k : fields_kind) : string :=
  match k with FNamed => "N" | FUnnamed => "U" | FUnit => "X" end.

Definition show_bool (b : bool) : string := if b then "1" else "0".

Definition show_indices (bs : list binding) : string := join "," (map (fun b => nat_str (b_index b)) bs).

Definition show_arm (a : trace_arm) : string :=
  ("arm " ++ ta_variant a ++ " " ++ show_kind (ta_kind a)
   ++ " binds=" ++ show_indices (ta_bound a)
   ++ " rest=" ++ show_bool (ta_rest a)
   ++ " traced=" ++ show_indices (map stmt_binding (ta_body a)))%string.

Definition line (key : string) (items : list string) : string :=
  match items with [] => key | _ => (key ++ " " ++ join " " items)%string end.

Definition show_collect_impl (ci : collect_impl) : list string :=
  [ "impl";
    line "igen" (map show_gparam (ci_generics ci));
    line "gclt" [lt_str (ci_gc_lifetime ci)];
    line "where" (map show_pred (ci_where ci));
    line "nt" [show_bexpr (ci_needs_trace ci)] ]
  ++ match ci_trace ci with
     | None => ["notrace"]
     | Some arms => map show_arm arms
     end.

Definition show_drop (dg : option drop_guard) : list string :=
  match dg with
  | None => ["nodrop"]
  | Some d => [ "drop"; line "dgen" (map show_gparam (dg_generics d)); line "dwhere" (map show_pred (dg_where d)) ]
  end.

Definition show_outcome (o : derive_outcome) : list string :=
  match o with
  | DPanic e => [ "class panic"; line "errs" [show_error e] ]
  | DOutput ci dg errs =>
      [ match ci, errs with Some _, [] => "class ok" | _, _ => "class errors" end;
        line "errs" (map show_error errs) ]
      ++ match ci with Some c => show_collect_impl c | None => ["noimpl"] end
      ++ show_drop dg
  end.

(* One correspondence case: a shape plus, for each instantiation of its type parameters that the
   harness measured, the list of (whitespace-free) field-type strings whose own NEEDS_TRACE was
   measured as `true`. *)
Record case : Type := { c_id : nat; c_shape : shape; c_rhos : list (list string) }.

Definition rho_of (trues : list string) (t : ty) : bool := mem_string (show_ty t) trues.

Definition show_nteval (s : shape) (rhos : list (list string)) : list string :=
  match derive s with
  | Ok g => [ line "nteval" (map (fun tr => show_bool (eval (rho_of tr) (ci_needs_trace (g_collect g)))) rhos) ]
  | Err _ => []
  end.

Definition show_case (c : case) : list string :=
  [ ("CASE " ++ nat_str (c_id c))%string ]
  ++ show_outcome (derive_full (c_shape c))
  ++ [ line "mustreject" (reject_clauses (c_shape c)) ]
  ++ show_nteval (c_shape c) (c_rhos c)
  ++ [ "END" ].

(* printed with `Eval vm_compute in (show_cases cases)` as a list of lines *)
Definition show_cases (cs : list case) : list string := flat_map show_case cs.
