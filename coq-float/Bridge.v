(** * Bridge to the framework's model over Q (GA.Model.Metrics): the exact real formulas of
    GAFloat.Model are the images under Q2R of cycle_debits / cycle_credits / allocation_debt /
    finish_cycle's wakeup, so on the grid the binary64 evaluation equals the Q model's value. *)
From Coq Require Import Reals ZArith NArith QArith Qreals Lia Lra.
From Flocq Require Import Core.
From GA Require Model.Metrics.
From GAFloat Require Import Model Proofs.
Module M := GA.Model.Metrics.
Open Scope R_scope.

(** the float-side view of a model state *)
Definition of_metrics (m : M.metrics) : fmetrics :=
  mkF (M.total m) (M.allocated m) (M.marked m) (M.traced m) (M.remembered m)
      (M.dropped m) (M.freed m)
      (Q2R (M.wakeup m)) (Q2R (M.artificial m))
      (Q2R (M.sleep_f (M.pac m))) (M.min_sleep (M.pac m))
      (Q2R (M.mark_f (M.pac m))) (Q2R (M.trace_f (M.pac m))) (Q2R (M.keep_f (M.pac m)))
      (Q2R (M.drop_f (M.pac m))) (Q2R (M.free_f (M.pac m))).

Lemma Q2R_QofN : forall n, Q2R (M.QofN n) = RofN n.
Proof. intros n. unfold M.QofN, RofN, Q2R, inject_Z. simpl. field. Qed.

Lemma Q2R_debits : forall m, Q2R (M.cycle_debits m) = re_debits (of_metrics m).
Proof.
  intros m. unfold M.cycle_debits, re_debits, of_metrics. simpl.
  rewrite Q2R_plus, Q2R_minus, Q2R_QofN. reflexivity.
Qed.

Lemma Q2R_credits : forall m, Q2R (M.cycle_credits m) = re_credits (of_metrics m).
Proof.
  intros m. unfold M.cycle_credits, re_credits, of_metrics. simpl.
  rewrite !Q2R_plus, !Q2R_mult, !Q2R_QofN. reflexivity.
Qed.

Lemma Qle_bool_Rle_bool : forall a b : Q, Qle_bool a b = Rle_bool (Q2R a) (Q2R b).
Proof.
  intros a b. destruct (Qle_bool a b) eqn:E.
  - symmetry. apply Rle_bool_true. apply Qle_Rle. apply Qle_bool_iff. exact E.
  - symmetry. apply Rle_bool_false. apply Rnot_le_lt. intros H.
    apply Rle_Qle in H. apply Qle_bool_iff in H. congruence.
Qed.

Lemma Q2R_Qmax : forall a b : Q, Q2R (M.Qmax a b) = Rmax (Q2R a) (Q2R b).
Proof.
  intros a b. unfold M.Qmax, Rmax.
  destruct (Qle_bool a b) eqn:E; destruct (Rle_dec (Q2R a) (Q2R b)) as [H|H]; try reflexivity.
  - exfalso. apply H. apply Qle_Rle. apply Qle_bool_iff. exact E.
  - exfalso. apply Rle_Qle in H. apply Qle_bool_iff in H. congruence.
Qed.

Lemma Q2R_0 : Q2R 0 = 0.
Proof. unfold Q2R. simpl. field. Qed.

Lemma Q2R_allocation_debt : forall m, Q2R (M.allocation_debt m) = re_debt (of_metrics m).
Proof.
  intros m. unfold M.allocation_debt, re_debt.
  change (f_total (of_metrics m)) with (M.total m).
  destruct (N.eqb (M.total m) 0); [exact Q2R_0|].
  rewrite (Qle_bool_Rle_bool (M.cycle_debits m) 0), Q2R_0, Q2R_debits.
  destruct (Rle_bool (re_debits (of_metrics m)) 0); [exact Q2R_0|].
  rewrite Q2R_Qmax, Q2R_minus, Q2R_debits, Q2R_credits, Q2R_0. reflexivity.
Qed.

Lemma Q2R_finish_wakeup : forall m b,
  Q2R (M.wakeup (M.finish_cycle m b)) = re_wakeup (of_metrics m).
Proof.
  intros m b. unfold M.finish_cycle. simpl.
  rewrite (Qeq_eqR _ _ (Qred_correct _)).
  rewrite Q2R_Qmax, Q2R_mult, !Q2R_QofN. reflexivity.
Qed.

(** on the grid, binary64 computes exactly the Q model's values *)
Lemma fl_debt_is_model : forall m, grid_ok (of_metrics m) ->
  fl_debt (of_metrics m) = Q2R (M.allocation_debt m).
Proof. intros m H. rewrite Q2R_allocation_debt. apply fl_debt_exact. exact H. Qed.

Lemma fl_wakeup_is_model : forall m b, grid_ok (of_metrics m) ->
  fl_wakeup (of_metrics m) = Q2R (M.wakeup (M.finish_cycle m b)).
Proof. intros m b H. rewrite Q2R_finish_wakeup. apply fl_wakeup_exact. exact H. Qed.

(** grid membership of a rational: a multiple of 1/4096 *)
Lemma grid_Q2R : forall (z : Z) (b : Z), (Z.abs z <= b)%Z -> grid b (Q2R (z # 4096)).
Proof. intros z b Hz. exists z. split; [unfold Q2R; simpl; reflexivity | exact Hz]. Qed.

(** non-vacuity on the model side: a state with pacing k/64 *)
Definition ex_q : M.metrics :=
  M.mkMetrics (M.mkPacing (2048 # 4096) 256 (384 # 4096) (1536 # 4096) (192 # 4096) (768 # 4096) (1216 # 4096))
    1000 (1028 # 4096) (0 # 4096) 700 20 10 300 200 50.

Lemma ex_q_grid_ok : grid_ok (of_metrics ex_q).
Proof.
  unfold grid_ok, of_metrics, ex_q, count_ok, amount_ok, factor_ok; simpl.
  repeat split; try (apply N.leb_le; reflexivity);
    apply grid_Q2R; apply Z.leb_le; reflexivity.
Qed.
