(** * C09F — on the dyadic grid, the binary64 evaluation of Metrics::allocation_debt (and of
    finish_cycle's wakeup amount) is exact.
    Model of f64: each operation = exact real operation followed by
    [round radix2 (FLT_exp (-1074) 53) ZnearestE] (Flocq); conversions `usize as f64` are rounded
    too; comparison and max are exact.  Overflow / infinities / NaN are excluded by the bound
    hypotheses (all intermediate magnitudes < 2^41), not modelled. *)
From Coq Require Import Reals ZArith NArith.
From Flocq Require Import Core.
From GAFloat Require Import Model Proofs.
Open Scope R_scope.

(** rounding to binary64 is the identity on multiples of 2^-12 whose numerator is below 2^53 *)
Theorem C09F_grid_round_exact :
  forall (b : Z) (x : R), (b < 2 ^ 53)%Z ->
    (exists z : Z, x = IZR z / 4096 /\ (Z.abs z <= b)%Z) ->
    round radix2 (FLT_exp (-1074) 53) ZnearestE x = x.
Proof. exact grid_round_exact. Qed.
Print Assumptions C09F_grid_round_exact.

(** such values are binary64 numbers (Flocq's generic_format for the binary64 exponent function) *)
Theorem C09F_grid_is_f64 :
  forall (b : Z) (x : R), (b < 2 ^ 53)%Z -> grid b x ->
    generic_format radix2 (FLT_exp (-1074) 53) x.
Proof. exact grid_is_f64. Qed.
Print Assumptions C09F_grid_is_f64.

(** the whole of allocation_debt: total_gcs == 0 return, cycle_debits <= 0.0 return,
    five rounded products, four rounded sums, the rounded subtraction and the final max *)
Theorem C09F_debt_exact :
  forall m : fmetrics, grid_ok m -> fl_debt m = re_debt m.
Proof. exact fl_debt_exact. Qed.
Print Assumptions C09F_debt_exact.

(** the intermediate values too *)
Theorem C09F_debits_exact :
  forall m : fmetrics, grid_ok m -> fl_debits m = re_debits m /\ grid (2 ^ 46) (re_debits m).
Proof. exact fl_debits_exact. Qed.
Print Assumptions C09F_debits_exact.

Theorem C09F_credits_exact :
  forall m : fmetrics, grid_ok m -> fl_credits m = re_credits m /\ grid (2 ^ 47) (re_credits m).
Proof. exact fl_credits_exact. Qed.
Print Assumptions C09F_credits_exact.

(** the exact result is itself a binary64 number (a multiple of 2^-12 below 2^36) *)
Theorem C09F_debt_is_f64 :
  forall m : fmetrics, grid_ok m -> is_f64 (re_debt m) /\ grid (2 ^ 48) (re_debt m).
Proof. exact (fun m H => conj (re_debt_is_f64 m H) (proj2 (fl_debt_exact_grid m H))). Qed.
Print Assumptions C09F_debt_is_f64.

(** finish_cycle: (remembered as f64 * sleep_factor).max(min_sleep as f64) is exact and is again
    an admissible wakeup amount *)
Theorem C09F_wakeup_exact :
  forall m : fmetrics, grid_ok m -> fl_wakeup m = re_wakeup m /\ amount_ok (re_wakeup m).
Proof. exact (fun m H => conj (fl_wakeup_exact m H) (re_wakeup_amount_ok m H)). Qed.
Print Assumptions C09F_wakeup_exact.

(** the harness's inputs are on the grid: factors k/64 (0 <= k <= 256), integer amounts *)
Theorem C09F_factor64_on_grid :
  forall k : Z, (0 <= k <= 256)%Z -> factor_ok (IZR k / 64).
Proof. exact factor64_ok. Qed.
Print Assumptions C09F_factor64_on_grid.

(** Non-vacuity: a concrete state satisfying every hypothesis, with a positive non-integer debt *)
Example C09F_example_grid_ok : grid_ok ex_m.
Proof. exact ex_m_grid_ok. Qed.
Example C09F_example_value : fl_debt ex_m = IZR 2406652 / 4096.
Proof. rewrite (fl_debt_exact ex_m ex_m_grid_ok). exact ex_m_debt_value. Qed.
