(** * C09F bridge — the exact real formulas are the Q model's (GA.Model.Metrics) under Q2R, so on
    the grid the binary64 evaluation returns exactly the model's rational value. *)
From Coq Require Import Reals ZArith NArith QArith Qreals.
From GA Require Model.Metrics.
From GAFloat Require Import Model Proofs Bridge.
Open Scope R_scope.

Theorem C09F_model_is_real_formula :
  forall m : GA.Model.Metrics.metrics,
    Q2R (GA.Model.Metrics.allocation_debt m) = re_debt (of_metrics m)
    /\ Q2R (GA.Model.Metrics.cycle_debits m) = re_debits (of_metrics m)
    /\ Q2R (GA.Model.Metrics.cycle_credits m) = re_credits (of_metrics m).
Proof. exact (fun m => conj (Q2R_allocation_debt m) (conj (Q2R_debits m) (Q2R_credits m))). Qed.
Print Assumptions C09F_model_is_real_formula.

Theorem C09F_f64_debt_is_model :
  forall m : GA.Model.Metrics.metrics, grid_ok (of_metrics m) ->
    fl_debt (of_metrics m) = Q2R (GA.Model.Metrics.allocation_debt m).
Proof. exact fl_debt_is_model. Qed.
Print Assumptions C09F_f64_debt_is_model.

Theorem C09F_f64_wakeup_is_model :
  forall (m : GA.Model.Metrics.metrics) (reset_debt : bool), grid_ok (of_metrics m) ->
    fl_wakeup (of_metrics m)
    = Q2R (GA.Model.Metrics.wakeup (GA.Model.Metrics.finish_cycle m reset_debt)).
Proof. exact fl_wakeup_is_model. Qed.
Print Assumptions C09F_f64_wakeup_is_model.

Example C09F_bridge_example_grid_ok : grid_ok (of_metrics ex_q).
Proof. exact ex_q_grid_ok. Qed.
