(** * binary64 evaluation of src/metrics.rs (allocation_debt, finish_cycle's wakeup amount)
    in the standard real-number model of IEEE-754 arithmetic: every operation is the exact real
    operation followed by rounding to nearest, ties to even, into the binary64 format
    (precision 53, minimal exponent -1074; gradual underflow included).  Overflow, infinities
    and NaN are NOT modelled: the format below is unbounded above.  The theorems carry bound
    hypotheses under which every intermediate magnitude is below 2^41 (binary64 overflows at
    2^1024), so no operation of the real computation overflows or produces a NaN.
    Definitions only. *)
From Coq Require Import Reals ZArith NArith.
From Flocq Require Import Core.
Open Scope R_scope.

(** ** The format and the rounded operations *)
Definition fexp64 : Z -> Z := FLT_exp (-1074) 53.
Definition rnd (x : R) : R := round radix2 fexp64 ZnearestE x.
Definition is_f64 (x : R) : Prop := generic_format radix2 fexp64 x.

Definition fadd (x y : R) : R := rnd (x + y).
Definition fsub (x y : R) : R := rnd (x - y).
Definition fmul (x y : R) : R := rnd (x * y).
(* `n as f64` for an unsigned integer: rounds to nearest (exact below 2^53) *)
Definition of_count (n : N) : R := rnd (IZR (Z.of_N n)).
(* f64::max on two non-NaN arguments is the larger one, exactly (the sign of a zero result is
   not visible in the reals) *)
Definition fmax (x y : R) : R := Rmax x y.
(* `x <= 0.0` on a non-NaN argument *)
Definition fle0 (x : R) : bool := Rle_bool x 0.

(** ** The state read by the two functions (MetricsInner + Pacing), f64 fields as reals *)
Record fmetrics := mkF {
  f_total : N; f_allocated : N; f_marked : N; f_traced : N; f_remembered : N;
  f_dropped : N; f_freed : N;
  f_wakeup : R; f_artificial : R;
  f_sleep : R; f_min_sleep : N;
  f_mark : R; f_trace : R; f_keep : R; f_drop : R; f_free : R
}.

(** ** Metrics::allocation_debt as computed in f64: same operations, same order
    (left-associated sums), a rounding after every arithmetic operation and every conversion *)
Definition fl_debits (m : fmetrics) : R :=
  fadd (fsub (of_count (f_allocated m)) (f_wakeup m)) (f_artificial m).

Definition fl_credits (m : fmetrics) : R :=
  fadd (fadd (fadd (fadd
    (fmul (of_count (f_marked m)) (f_mark m))
    (fmul (of_count (f_traced m)) (f_trace m)))
    (fmul (of_count (f_remembered m)) (f_keep m)))
    (fmul (of_count (f_dropped m)) (f_drop m)))
    (fmul (of_count (f_freed m)) (f_free m)).

Definition fl_debt (m : fmetrics) : R :=
  if N.eqb (f_total m) 0 then 0
  else if fle0 (fl_debits m) then 0
  else fmax (fsub (fl_debits m) (fl_credits m)) 0.

(** finish_cycle: wakeup_amount = (remembered as f64 * sleep_factor).max(min_sleep as f64) *)
Definition fl_wakeup (m : fmetrics) : R :=
  fmax (fmul (of_count (f_remembered m)) (f_sleep m)) (of_count (f_min_sleep m)).

(** ** The same formulas over the reals, no rounding anywhere
    (shape of GA.Model.Metrics.cycle_debits / cycle_credits / allocation_debt over Q) *)
Definition RofN (n : N) : R := IZR (Z.of_N n).

Definition re_debits (m : fmetrics) : R :=
  RofN (f_allocated m) - f_wakeup m + f_artificial m.

Definition re_credits (m : fmetrics) : R :=
  RofN (f_marked m) * f_mark m
  + RofN (f_traced m) * f_trace m
  + RofN (f_remembered m) * f_keep m
  + RofN (f_dropped m) * f_drop m
  + RofN (f_freed m) * f_free m.

Definition re_debt (m : fmetrics) : R :=
  if N.eqb (f_total m) 0 then 0
  else if Rle_bool (re_debits m) 0 then 0
  else Rmax (re_debits m - re_credits m) 0.

Definition re_wakeup (m : fmetrics) : R :=
  Rmax (RofN (f_remembered m) * f_sleep m) (RofN (f_min_sleep m)).

(** ** The dyadic grid: integer multiples of 2^-12 with a bounded numerator *)
Definition grid (b : Z) (x : R) : Prop :=
  exists z : Z, x = IZR z / 4096 /\ (Z.abs z <= b)%Z.

(* a counter the harness can reach *)
Definition count_ok (n : N) : Prop := (n <= 2 ^ 30)%N.
(* a pacing factor: a multiple of 1/4096 with |f| <= 4 (covers k/64, 0 <= k <= 256) *)
Definition factor_ok (f : R) : Prop := grid (4 * 4096) f.
(* wakeup_amount / artificial_debt: a multiple of 1/4096 with |x| <= 2^32 *)
Definition amount_ok (x : R) : Prop := grid (2 ^ 32 * 4096) x.

Definition grid_ok (m : fmetrics) : Prop :=
  count_ok (f_allocated m) /\ count_ok (f_marked m) /\ count_ok (f_traced m) /\
  count_ok (f_remembered m) /\ count_ok (f_dropped m) /\ count_ok (f_freed m) /\
  count_ok (f_min_sleep m) /\
  amount_ok (f_wakeup m) /\ amount_ok (f_artificial m) /\
  factor_ok (f_sleep m) /\ factor_ok (f_mark m) /\ factor_ok (f_trace m) /\
  factor_ok (f_keep m) /\ factor_ok (f_drop m) /\ factor_ok (f_free m).
