(** * Exactness of the binary64 evaluation on the dyadic grid. *)
From Coq Require Import Reals ZArith NArith Lia Lra.
From Flocq Require Import Core.
From GAFloat Require Import Model.
Open Scope R_scope.

(** ** Grid values with a numerator below 2^53 are binary64 numbers *)
Lemma grid_is_f64 : forall b x, (b < 2 ^ 53)%Z -> grid b x -> is_f64 x.
Proof.
  intros b x Hb [z [Hx Hz]].
  unfold is_f64, fexp64.
  apply generic_format_FLT.
  apply (FLT_spec radix2 (-1074) 53 x (Float radix2 z (-12))).
  - rewrite Hx. unfold F2R. simpl. reflexivity.
  - simpl Fnum. change (Zpower radix2 53) with (2 ^ 53)%Z. lia.
  - simpl. lia.
Qed.

Lemma rnd_is_f64 : forall x, is_f64 x -> rnd x = x.
Proof.
  intros x Hx. unfold rnd. apply round_generic.
  - apply valid_rnd_N.
  - exact Hx.
Qed.

Lemma grid_round_exact : forall b x, (b < 2 ^ 53)%Z -> grid b x -> rnd x = x.
Proof. intros b x Hb Hx. apply rnd_is_f64. exact (grid_is_f64 b x Hb Hx). Qed.

Lemma grid_rnd : forall b x, grid b x -> (b <? 2 ^ 53)%Z = true -> rnd x = x.
Proof. intros b x Hx Hb. apply (grid_round_exact b x); [apply Z.ltb_lt; exact Hb | exact Hx]. Qed.

(** ** Closure of the grid under the steps of the computation *)
Lemma grid_weaken : forall b b' x, (b <= b')%Z -> grid b x -> grid b' x.
Proof. intros b b' x Hb [z [Hx Hz]]. exists z. split; [exact Hx | lia]. Qed.

Lemma grid_plus : forall b1 b2 x y, grid b1 x -> grid b2 y -> grid (b1 + b2) (x + y).
Proof.
  intros b1 b2 x y [z1 [Hx Hz1]] [z2 [Hy Hz2]].
  exists (z1 + z2)%Z. split.
  - rewrite Hx, Hy, plus_IZR. field.
  - lia.
Qed.

Lemma grid_minus : forall b1 b2 x y, grid b1 x -> grid b2 y -> grid (b1 + b2) (x - y).
Proof.
  intros b1 b2 x y [z1 [Hx Hz1]] [z2 [Hy Hz2]].
  exists (z1 - z2)%Z. split.
  - rewrite Hx, Hy, minus_IZR. field.
  - lia.
Qed.

Lemma grid_0 : forall b, (0 <= b)%Z -> grid b 0.
Proof. intros b Hb. exists 0%Z. split; [simpl; field | simpl; lia]. Qed.

Lemma count_bound : forall n, count_ok n -> (0 <= Z.of_N n <= 2 ^ 30)%Z.
Proof.
  intros n Hn. unfold count_ok in Hn. split; [apply N2Z.is_nonneg|].
  change (2 ^ 30)%Z with (Z.of_N (2 ^ 30)%N). apply N2Z.inj_le. exact Hn.
Qed.

Lemma grid_count : forall n, count_ok n -> grid (2 ^ 30 * 4096) (RofN n).
Proof.
  intros n Hn. pose proof (count_bound n Hn) as Hb.
  exists (Z.of_N n * 4096)%Z. split.
  - unfold RofN. rewrite mult_IZR. field.
  - lia.
Qed.

Lemma grid_count_mul : forall n b f, count_ok n -> (0 <= b)%Z -> grid b f ->
  grid (2 ^ 30 * b) (RofN n * f).
Proof.
  intros n b f Hn Hb0 [k [Hf Hk]]. pose proof (count_bound n Hn) as Hb.
  exists (Z.of_N n * k)%Z. split.
  - unfold RofN. rewrite Hf, mult_IZR. field.
  - rewrite Z.abs_mul. rewrite (Z.abs_eq (Z.of_N n)) by lia.
    apply Z.mul_le_mono_nonneg; lia.
Qed.

Lemma grid_Rmax : forall b x y, grid b x -> grid b y -> grid b (Rmax x y).
Proof. intros b x y Hx Hy. unfold Rmax. destruct (Rle_dec x y); assumption. Qed.

(** ** The conversions and products are exact *)
Lemma of_count_exact : forall n, count_ok n -> of_count n = RofN n.
Proof.
  intros n Hn. unfold of_count. fold (RofN n).
  apply (grid_round_exact (2 ^ 30 * 4096)); [reflexivity | apply grid_count; exact Hn].
Qed.

Lemma fmul_count_exact : forall n f, count_ok n -> factor_ok f ->
  fmul (of_count n) f = RofN n * f /\ grid (2 ^ 44) (RofN n * f).
Proof.
  intros n f Hn Hf. unfold factor_ok in Hf.
  assert (Hg : grid (2 ^ 44) (RofN n * f)).
  { apply (grid_weaken (2 ^ 30 * (4 * 4096))); [apply Z.leb_le; reflexivity|].
    apply grid_count_mul; [exact Hn | apply Z.leb_le; reflexivity | exact Hf]. }
  split; [|exact Hg].
  unfold fmul. rewrite (of_count_exact n Hn).
  apply (grid_round_exact (2 ^ 44)); [reflexivity | exact Hg].
Qed.

(** ** cycle_debits *)
Lemma fl_debits_exact : forall m, grid_ok m ->
  fl_debits m = re_debits m /\ grid (2 ^ 46) (re_debits m).
Proof.
  intros m H. unfold grid_ok in H.
  destruct H as (Hal & _ & _ & _ & _ & _ & _ & Hwk & Har & _).
  unfold amount_ok in Hwk, Har.
  pose proof (grid_count _ Hal) as Ga.
  pose proof (grid_minus _ _ _ _ Ga Hwk) as G1.
  pose proof (grid_plus _ _ _ _ G1 Har) as G2.
  unfold fl_debits, re_debits, fadd, fsub.
  rewrite (of_count_exact _ Hal).
  rewrite (grid_rnd _ _ G1 eq_refl).
  rewrite (grid_rnd _ _ G2 eq_refl).
  split; [reflexivity|].
  eapply grid_weaken; [|exact G2]. apply Z.leb_le; reflexivity.
Qed.

(** ** cycle_credits *)
Lemma fl_credits_exact : forall m, grid_ok m ->
  fl_credits m = re_credits m /\ grid (2 ^ 47) (re_credits m).
Proof.
  intros m H. unfold grid_ok in H.
  destruct H as (_ & Hma & Htr & Hre & Hdr & Hfr & _ & _ & _ & _ & Fma & Ftr & Fke & Fdr & Ffr).
  destruct (fmul_count_exact _ _ Hma Fma) as [E1 G1].
  destruct (fmul_count_exact _ _ Htr Ftr) as [E2 G2].
  destruct (fmul_count_exact _ _ Hre Fke) as [E3 G3].
  destruct (fmul_count_exact _ _ Hdr Fdr) as [E4 G4].
  destruct (fmul_count_exact _ _ Hfr Ffr) as [E5 G5].
  pose proof (grid_plus _ _ _ _ G1 G2) as S2.
  pose proof (grid_plus _ _ _ _ S2 G3) as S3.
  pose proof (grid_plus _ _ _ _ S3 G4) as S4.
  pose proof (grid_plus _ _ _ _ S4 G5) as S5.
  unfold fl_credits, re_credits, fadd.
  rewrite E1, E2, E3, E4, E5.
  rewrite (grid_rnd _ _ S2 eq_refl).
  rewrite (grid_rnd _ _ S3 eq_refl).
  rewrite (grid_rnd _ _ S4 eq_refl).
  rewrite (grid_rnd _ _ S5 eq_refl).
  split; [reflexivity|].
  eapply grid_weaken; [|exact S5]. apply Z.leb_le; reflexivity.
Qed.

(** ** allocation_debt: both early returns, the subtraction and the final max *)
Lemma fl_debt_exact_grid : forall m, grid_ok m ->
  fl_debt m = re_debt m /\ grid (2 ^ 48) (re_debt m).
Proof.
  intros m H.
  destruct (fl_debits_exact m H) as [Ed Gd].
  destruct (fl_credits_exact m H) as [Ec Gc].
  pose proof (grid_minus _ _ _ _ Gd Gc) as Gs.
  assert (G0 : grid (2 ^ 48) 0) by (apply grid_0; apply Z.leb_le; reflexivity).
  unfold fl_debt, re_debt, fle0, fmax, fsub.
  rewrite Ed, Ec.
  rewrite (grid_rnd _ _ Gs eq_refl).
  split; [reflexivity|].
  destruct (N.eqb (f_total m) 0); [exact G0|].
  destruct (Rle_bool (re_debits m) 0); [exact G0|].
  apply grid_Rmax; [|exact G0].
  eapply grid_weaken; [|exact Gs]. apply Z.leb_le; reflexivity.
Qed.

Lemma fl_debt_exact : forall m, grid_ok m -> fl_debt m = re_debt m.
Proof. intros m H. exact (proj1 (fl_debt_exact_grid m H)). Qed.

(** the result is again a binary64 number on the grid, inside the range accepted for
    artificial_debt's next use only if it is below 2^32 — stated as is *)
Lemma re_debt_is_f64 : forall m, grid_ok m -> is_f64 (re_debt m).
Proof.
  intros m H. apply (grid_is_f64 (2 ^ 48)); [reflexivity|].
  exact (proj2 (fl_debt_exact_grid m H)).
Qed.

(** ** finish_cycle's wakeup amount *)
Lemma fl_wakeup_exact_grid : forall m, grid_ok m ->
  fl_wakeup m = re_wakeup m /\ grid (2 ^ 44) (re_wakeup m).
Proof.
  intros m H. unfold grid_ok in H.
  destruct H as (_ & _ & _ & Hre & _ & _ & Hms & _ & _ & Fsl & _).
  destruct (fmul_count_exact _ _ Hre Fsl) as [E1 G1].
  unfold fl_wakeup, re_wakeup, fmax.
  rewrite E1, (of_count_exact _ Hms).
  split; [reflexivity|].
  apply grid_Rmax; [exact G1|].
  eapply grid_weaken; [|apply grid_count; exact Hms]. apply Z.leb_le; reflexivity.
Qed.

Lemma fl_wakeup_exact : forall m, grid_ok m -> fl_wakeup m = re_wakeup m.
Proof. intros m H. exact (proj1 (fl_wakeup_exact_grid m H)). Qed.

(** the new wakeup amount is again an admissible amount: |.| <= 2^32, multiple of 2^-12 *)
Lemma re_wakeup_amount_ok : forall m, grid_ok m -> amount_ok (re_wakeup m).
Proof.
  intros m H. unfold amount_ok.
  eapply grid_weaken; [|exact (proj2 (fl_wakeup_exact_grid m H))]. apply Z.leb_le; reflexivity.
Qed.

(** ** The harness's factors k/64 and integer amounts are on the grid *)
Lemma factor64_ok : forall k : Z, (0 <= k <= 256)%Z -> factor_ok (IZR k / 64).
Proof.
  intros k Hk. exists (k * 64)%Z. split.
  - rewrite mult_IZR. field.
  - change (4 * 4096)%Z with 16384%Z. lia.
Qed.

Lemma amount_int_ok : forall z : Z, (Z.abs z <= 2 ^ 32)%Z -> amount_ok (IZR z).
Proof.
  intros z Hz. exists (z * 4096)%Z. split.
  - rewrite mult_IZR. field.
  - change (2 ^ 32 * 4096)%Z with 17592186044416%Z. change (2 ^ 32)%Z with 4294967296%Z in Hz. lia.
Qed.

Lemma amount_grid_ok : forall z : Z, (Z.abs z <= 2 ^ 32 * 4096)%Z -> amount_ok (IZR z / 4096).
Proof. intros z Hz. exists z. split; [reflexivity | exact Hz]. Qed.

(** ** Non-vacuity: a concrete state on the grid with a non-trivial debt *)
Definition ex_m : fmetrics :=
  mkF 1000 700 300 200 50 20 10
      (IZR 1025 / 4096) (IZR (-3) / 4096)
      (IZR 32 / 64) 256
      (IZR 6 / 64) (IZR 24 / 64) (IZR 3 / 64) (IZR 12 / 64) (IZR 19 / 64).

Lemma ex_m_grid_ok : grid_ok ex_m.
Proof.
  unfold grid_ok, ex_m, count_ok; simpl.
  repeat split; try (apply N.leb_le; reflexivity);
    try (apply amount_grid_ok; apply Z.leb_le; reflexivity);
    try (apply factor64_ok; lia).
Qed.

Lemma ex_m_debt_value : re_debt ex_m = IZR 2406652 / 4096.
Proof.
  unfold re_debt, re_debits, re_credits, ex_m, RofN; simpl.
  assert (Hd : ~ (700 - 1025 / 4096 + -3 / 4096 <= 0)) by lra.
  rewrite (Rle_bool_false _ _ (Rnot_le_lt _ _ Hd)).
  unfold Rmax. destruct (Rle_dec _ 0) as [Hle|Hgt]; [exfalso; lra | lra].
Qed.
