//! C17 correspondence + oracle harness.
//!
//! Allocates `Gc` values over a grid of sized types, slices, strs, slice-with-header triples and
//! custom per-value metadata types through gc-arena's public API, with the tracking allocator
//! underneath.  For every object it prints one `L ...` line (inputs as rustc reports them +
//! what the allocator observed) that the Coq model must reproduce, and `VIOL ...` lines whenever
//! the model-independent oracle fails:
//!   * value pointer aligned, value extent inside its block, at least header+metadata bytes in
//!     front of the value inside the block;
//!   * byte pattern over the whole value extent intact, `Gc::as_ptr` unchanged, thin->fat length
//!     unchanged after several collections while reachable from the root;
//!   * dealloc layout == alloc layout, dealloc pointer == block base, no double free, no write
//!     outside a block (allocator error list / guard zones).
//! `CASE ...` lines are printed before each batch so a crash can be attributed.

use core::alloc::Layout;
use core::marker::PhantomData;
use core::mem::{align_of, size_of};
use std::panic::{catch_unwind, AssertUnwindSafe};

use gc_arena::meta::{AllocMeta, PtrMeta, UnitTypeMeta};
use gc_arena::{
    Arena, Collect, Gc, GcBuilder, GcSliceBuilder, GcSliceWithHeaderBuilder, GcStrBuilder,
    GcThinSlice, GcThinSliceWithHeader, GcThinStr, Rootable, SliceWithHeader,
};
use layout_harness::talloc::{self, Block, EV_ALLOC, EV_FREE};
use layout_harness::types::*;
use layout_harness::{arg_value, install_panic_hook, log2};

#[derive(Collect)]
#[collect(no_drop)]
struct Root<'gc> {
    keep: Vec<Gc<'gc, ()>>,
}

type TestArena = Arena<Rootable![Root<'_>]>;

/// size_of::<GcHeader>() as measured by the twin of the source (passed with --hdr-bytes)
static HDR_BYTES: std::sync::atomic::AtomicUsize = std::sync::atomic::AtomicUsize::new(16);
fn hdr_bytes() -> usize {
    HDR_BYTES.load(std::sync::atomic::Ordering::Relaxed)
}

struct Rec {
    kind: String, // kind tokens for the L line
    custom: bool,
    meta: (usize, usize), // size, align of the PtrMetadata type
    len: usize,
    obj: usize,
    addr: usize,
    val_size: usize,
    val_align: usize,
    block: Option<Block>,
    keep_index: usize,
}

struct Ctx {
    arena: TestArena,
    st: St,
}

/// everything except the arena (so it can be used inside `mutate` closures)
struct St {
    next_obj: usize,
    viols: usize,
    objects: usize,
    max_bytes: usize,
    err_seen: usize,
}

impl St {
    fn viol(&mut self, desc: &str, msg: &str) {
        self.viols += 1;
        println!("VIOL {} :: {}", desc, msg);
    }

    fn drain_alloc_errors(&mut self, desc: &str) {
        let n = talloc::error_count();
        if n > self.err_seen {
            for m in talloc::describe_errors(self.err_seen) {
                self.viol(desc, &m);
            }
            self.err_seen = n;
        }
    }
}

fn rec_desc(r: &Rec) -> String {
    format!("kind=[{}] meta=({},{}) len={}", r.kind, r.meta.0, r.meta.1, r.len)
}

/// After the typed part allocated an object: locate its block and run the placement oracle.
/// Returns the number of value bytes that may be written (clamped to the block).
fn place(ctx: &mut St, r: &mut Rec) -> usize {
    let d = rec_desc(r);
    if r.addr % r.val_align != 0 {
        ctx.viol(&d, &format!("value pointer {:#x} is not aligned to {}", r.addr, r.val_align));
    }
    let (b, n) = talloc::blocks_containing(r.addr);
    if n != 1 {
        ctx.viol(&d, &format!("value address {:#x} lies in {} live allocator blocks", r.addr, n));
    }
    r.block = b;
    let Some(b) = b else { return 0 };
    let off = r.addr - b.user;
    let end = b.user + b.size;
    let mut writable = r.val_size;
    if r.addr + r.val_size > end {
        ctx.viol(&d, &format!(
            "value extent [{},{}) exceeds its block of size {} (block align {})",
            off, off + r.val_size, b.size, b.align));
        writable = end - r.addr;
    }
    if off < hdr_bytes() + r.meta.0 {
        ctx.viol(&d, &format!(
            "only {} bytes in front of the value inside the block: no room for the {}-byte header and {}-byte metadata",
            off, hdr_bytes(), r.meta.0));
    }
    writable
}

/// Was an ALLOC event for this block logged in the current window?
fn alloc_logged(b: &Block) -> bool {
    let n = talloc::log_len();
    (0..n).any(|i| {
        let e = talloc::log_get(i);
        e.kind == EV_ALLOC && e.a == b.user && e.b == b.size && e.c == b.align
    })
}

/// Run collections with everything reachable, and check (untyped part): pattern and address.
fn collect_and_check(ctx: &mut Ctx, recs: &[Rec], round: usize, check_pattern: bool) {
    match round {
        0 => ctx.arena.finish_cycle(),
        1 => {
            ctx.arena.metrics().adjust_debt(1.0e9);
            ctx.arena.collect_debt();
            ctx.arena.finish_cycle();
        }
        _ => {
            ctx.arena.finish_cycle();
            ctx.arena.finish_cycle();
        }
    }
    let addrs: Vec<usize> = ctx.arena.mutate(|_, root| {
        recs.iter().map(|r| Gc::as_ptr(root.keep[r.keep_index]) as usize).collect()
    });
    for (r, a) in recs.iter().zip(addrs) {
        let d = rec_desc(r);
        if a != r.addr {
            ctx.st.viol(&d, &format!("Gc::as_ptr changed across a collection: {:#x} -> {:#x}", r.addr, a));
            continue;
        }
        let Some(b) = r.block else { continue };
        if !check_pattern {
            continue;
        }
        let end = b.user + b.size;
        let n = r.val_size.min(end.saturating_sub(r.addr));
        if let Some(j) = unsafe { first_mismatch(r.addr as *const u8, n, r.obj) } {
            ctx.st.viol(&d, &format!("value byte {} of {} changed after collection round {}", j, r.val_size, round));
        }
    }
    talloc::check_all_guards();
    ctx.st.drain_alloc_errors("after collection");
}

/// Release the objects, collect, and print the `L` lines with the observed dealloc.
fn release_and_report(ctx: &mut Ctx, recs: &[Rec], keep_from: usize) {
    release_and_report_opt(ctx, recs, keep_from, true)
}

/// `print_l = false`: oracle only (kinds the Coq model has no `L` line format for)
fn release_and_report_opt(ctx: &mut Ctx, recs: &[Rec], keep_from: usize, print_l: bool) {
    ctx.arena.mutate_root(|_, root| root.keep.truncate(keep_from));
    let errs_before = talloc::error_count();
    talloc::log_start();
    ctx.arena.finish_cycle();
    ctx.arena.finish_cycle();
    talloc::log_stop();
    let log = talloc::log_take();
    for r in recs {
        let d = rec_desc(r);
        let Some(b) = r.block else {
            if print_l {
                println!("L {} {} {} {} {} X", r.custom as u8, r.meta.0, log2(r.meta.1), r.kind, r.len);
            }
            continue;
        };
        // FREE events that point at or near this block
        let mut exact: Option<(usize, usize)> = None;
        let mut near: Option<(usize, usize, usize)> = None;
        let mut count = 0;
        for e in &log {
            if e.kind == EV_FREE {
                if e.a == b.user {
                    exact = Some((e.b, e.c));
                    count += 1;
                } else if e.a + 65536 >= b.user && e.a <= b.user + b.size {
                    near = Some((e.a, e.b, e.c));
                }
            }
        }
        let (fsz, fal, foff) = match (exact, near) {
            (Some((s, a)), _) => {
                if count > 1 {
                    ctx.st.viol(&d, &format!("block freed {} times", count));
                }
                if (s, a) != (b.size, b.align) {
                    ctx.st.viol(&d, &format!(
                        "dealloc layout ({},{}) differs from alloc layout ({},{})", s, a, b.size, b.align));
                }
                (s, a, 0usize)
            }
            (None, Some((p, s, a))) => {
                ctx.st.viol(&d, &format!(
                    "dealloc called with pointer base{:+} (layout ({},{})) instead of the block base (alloc layout ({},{}))",
                    p as isize - b.user as isize, s, a, b.size, b.align));
                (s, a, 999_999_999usize)
            }
            (None, None) => {
                ctx.st.viol(&d, "block was never deallocated after becoming unreachable and two full collections");
                (0, 1, 999_999_999usize)
            }
        };
        if print_l {
            println!(
                "L {} {} {} {} {} O {} {} {} {} {} {} {} {}",
                r.custom as u8, r.meta.0, log2(r.meta.1), r.kind, r.len,
                b.size, log2(b.align), r.addr - b.user, fsz, log2(fal), foff, r.val_size, log2(r.val_align)
            );
        }
    }
    if talloc::error_count() > errs_before {
        ctx.st.drain_alloc_errors("while releasing a batch");
    }
}

trait Plain: Copy + 'static + for<'gc> Collect<'gc> {}
impl<T: Copy + 'static + for<'gc> Collect<'gc>> Plain for T {}

fn new_rec(st: &mut St, kind: String, custom: bool, meta: (usize, usize), len: usize) -> Rec {
    let obj = st.next_obj;
    st.next_obj += 1;
    st.objects += 1;
    Rec { kind, custom, meta, len, obj, addr: 0, val_size: 0, val_align: 1, block: None, keep_index: 0 }
}

fn keep_len(ctx: &mut Ctx, reserve: usize) -> usize {
    ctx.arena.mutate_root(|_, root| {
        root.keep.reserve(reserve);
        root.keep.len()
    })
}

fn check_logged(st: &mut St, r: &Rec, what: &str) {
    let logged = r.block.map(|b| alloc_logged(&b)).unwrap_or(false);
    if !logged {
        st.viol(&rec_desc(r), &format!("no alloc event for the block of the value during {}", what));
    }
}

// ------------------------------------------------------------------------------------------------
// sized values
// ------------------------------------------------------------------------------------------------
fn batch_sized<T: Plain>(ctx: &mut Ctx) {
    let (vs, va) = (size_of::<T>(), align_of::<T>());
    println!("CASE sized v={},{}", vs, va);
    let base = keep_len(ctx, 1);
    let Ctx { arena, st } = ctx;
    let mut r = new_rec(st, format!("Z {} {}", vs, log2(va)), false, (0, 1), 0);
    r.val_size = vs;
    r.val_align = va;
    r.keep_index = base;
    arena.mutate_root(|mc, root| {
        // allocate through the builder so the whole value extent can be written legitimately
        talloc::log_start();
        let mut builder = GcBuilder::<T>::new();
        r.addr = builder.as_ptr() as usize;
        let writable = place(st, &mut r);
        check_logged(st, &r, "GcBuilder::new");
        talloc::log_stop();
        unsafe { fill(r.addr as *mut u8, writable, r.obj) };
        let d = rec_desc(&r);
        let gc: Gc<'_, T> = unsafe { builder.assume_init(mc) };
        let p = Gc::as_ptr(gc);
        if p as usize != r.addr {
            st.viol(&d, &format!("Gc::as_ptr {:#x} differs from the builder pointer {:#x}", p as usize, r.addr));
        }
        let back: Gc<'_, T> = unsafe { Gc::from_ptr(p) };
        if Gc::as_ptr(back) != p || !Gc::ptr_eq(back, gc) {
            st.viol(&d, "as_ptr/from_ptr round trip changed the pointer");
        }
        let thin = Gc::as_thin(gc);
        let fat = Gc::as_fat(thin);
        if Gc::as_ptr(thin) != p || Gc::as_thin_ptr(thin) as usize != r.addr || Gc::as_ptr(fat) != p {
            st.viol(&d, "as_thin/as_fat round trip changed the pointer");
        }
        if let Some(j) = unsafe { first_mismatch(p as *const u8, writable, r.obj) } {
            st.viol(&d, &format!("value byte {} differs right after assume_init", j));
        }
        root.keep.push(Gc::erase(gc));
    });
    let recs = [r];
    for round in 0..3 {
        collect_and_check(ctx, &recs, round, true);
    }
    release_and_report(ctx, &recs, base);
}

// ------------------------------------------------------------------------------------------------
// custom per-value metadata (any metadata layout) on a sized value
// ------------------------------------------------------------------------------------------------
struct CustomMeta<MD>(PhantomData<MD>);

impl<T, M, MD: Copy + Send> PtrMeta<T, M> for CustomMeta<MD> {
    type PtrMetadata = MD;
    type Thin = T;
    fn to_thin(_: &'static M, fat: *const T) -> *const T {
        fat
    }
    fn from_thin(_: &'static M, thin: *const T, _: MD) -> *const T {
        thin
    }
}

impl<T, M, MD: Copy + Send> AllocMeta<T, M> for CustomMeta<MD> {
    fn layout(_: &'static M, _: MD) -> Option<Layout> {
        Some(Layout::new::<T>())
    }
}

fn batch_custom<MD: Copy + Send + 'static, T: Plain>(ctx: &mut Ctx, md: MD) {
    let (vs, va) = (size_of::<T>(), align_of::<T>());
    let (ms, ma) = (size_of::<MD>(), align_of::<MD>());
    println!("CASE custom m={},{} v={},{}", ms, ma, vs, va);
    let base = keep_len(ctx, 1);
    let Ctx { arena, st } = ctx;
    let mut r = new_rec(st, format!("Z {} {}", vs, log2(va)), true, (ms, ma), 0);
    r.val_size = vs;
    r.val_align = va;
    r.keep_index = base;
    arena.mutate_root(|mc, root| {
        talloc::log_start();
        let mut builder = unsafe {
            GcBuilder::<T, (), CustomMeta<MD>>::new_with_type_and_ptr_meta::<UnitTypeMeta>(md)
        };
        r.addr = builder.as_ptr() as usize;
        let writable = place(st, &mut r);
        check_logged(st, &r, "GcBuilder::new_with_type_and_ptr_meta");
        talloc::log_stop();
        unsafe { fill(r.addr as *mut u8, writable, r.obj) };
        let d = rec_desc(&r);
        let gc = unsafe { builder.assume_init(mc) };
        if Gc::as_ptr(gc) as usize != r.addr {
            st.viol(&d, "Gc::as_ptr differs from the builder pointer");
        }
        let thin = Gc::as_thin(gc);
        if Gc::as_ptr(Gc::as_fat(thin)) as usize != r.addr {
            st.viol(&d, "as_thin/as_fat round trip changed the pointer");
        }
        root.keep.push(Gc::erase(gc));
    });
    let recs = [r];
    for round in 0..3 {
        collect_and_check(ctx, &recs, round, true);
    }
    release_and_report(ctx, &recs, base);
}

// ------------------------------------------------------------------------------------------------
// custom per-value metadata that MATTERS: a `[u8]` whose length is stored as u8 / u16 / u32 / u64.  The layout
// handed to dealloc and the fat pointer rebuilt from the thin one both depend on the metadata value read back
// from the block, so reading it from the wrong place (padding between metadata and header) is observed.
// ------------------------------------------------------------------------------------------------
trait Len: Copy + Send + 'static {
    fn from_usize(n: usize) -> Self;
    fn to_usize(self) -> usize;
}
macro_rules! impl_len { ($($t:ty),*) => {$( impl Len for $t {
    fn from_usize(n: usize) -> Self { n as $t }
    fn to_usize(self) -> usize { self as usize }
} )*}; }
impl_len!(u8, u16, u32, u64);

struct CompactLen<L>(PhantomData<L>);

impl<L: Len> PtrMeta<[u8], ()> for CompactLen<L> {
    type PtrMetadata = L;
    type Thin = u8;
    fn to_thin(_: &'static (), fat: *const [u8]) -> *const u8 {
        fat as *const u8
    }
    fn from_thin(_: &'static (), thin: *const u8, len: L) -> *const [u8] {
        core::ptr::slice_from_raw_parts(thin, len.to_usize())
    }
}
impl<L: Len> AllocMeta<[u8], ()> for CompactLen<L> {
    fn layout(_: &'static (), len: L) -> Option<Layout> {
        Layout::array::<u8>(len.to_usize()).ok()
    }
}

fn batch_compact<L: Len>(ctx: &mut Ctx, lens: &[usize]) {
    let (ms, ma) = (size_of::<L>(), align_of::<L>());
    println!("CASE compact-length slice m={},{}", ms, ma);
    let base = keep_len(ctx, lens.len());
    let mut recs: Vec<Rec> = Vec::with_capacity(lens.len());
    {
        let Ctx { arena, st } = ctx;
        for &len in lens {
            if ms < 8 && len >= (1usize << (8 * ms)) {
                continue;
            }
            let mut r = new_rec(st, "C 1 0".to_string(), true, (ms, ma), len);
            r.val_size = len;
            r.val_align = 1;
            r.keep_index = base + recs.len();
            arena.mutate_root(|mc, root| {
                talloc::log_start();
                let mut builder = unsafe {
                    GcBuilder::<[u8], (), CompactLen<L>>::new_with_type_and_ptr_meta::<UnitTypeMeta>(L::from_usize(len))
                };
                let sp = builder.as_ptr();
                r.addr = sp as *mut u8 as usize;
                let d = rec_desc(&r);
                if sp.len() != len {
                    st.viol(&d, &format!("builder pointer has length {} for metadata {}", sp.len(), len));
                }
                let writable = place(st, &mut r);
                check_logged(st, &r, "GcBuilder::new_with_type_and_ptr_meta (compact length)");
                talloc::log_stop();
                unsafe { fill(r.addr as *mut u8, writable, r.obj) };
                let gc = unsafe { builder.assume_init(mc) };
                let p: *const [u8] = Gc::as_ptr(gc);
                if p as *const u8 as usize != r.addr || p.len() != len {
                    st.viol(&d, &format!("Gc::as_ptr = ({:#x}, len {}) expected ({:#x}, len {})", p as *const u8 as usize, p.len(), r.addr, len));
                }
                let thin = Gc::as_thin(gc);
                let back: *const [u8] = Gc::as_ptr(Gc::as_fat(thin));
                if back as *const u8 as usize != r.addr || back.len() != len {
                    st.viol(&d, &format!("thin->fat gives ({:#x}, len {}) expected ({:#x}, len {}): the per-value metadata is not read back from where it was stored",
                        back as *const u8 as usize, back.len(), r.addr, len));
                }
                root.keep.push(Gc::erase(gc));
            });
            recs.push(r);
        }
    }
    for round in 0..3 {
        collect_and_check(ctx, &recs, round, true);
        // thin -> fat again after the collection, from the address alone
        let Ctx { arena, st } = ctx;
        arena.mutate(|_, _| {
            for r in &recs {
                let thin = unsafe { gc_arena::GcThin::<[u8], (), CompactLen<L>>::from_thin_ptr_with_kind(r.addr as *const u8) };
                let fat: *const [u8] = Gc::as_ptr(Gc::as_fat(thin));
                if fat.len() != r.len {
                    st.viol(&rec_desc(r), &format!("after collection round {}: thin->fat length {} expected {}", round, fat.len(), r.len));
                }
            }
        });
    }
    release_and_report_opt(ctx, &recs, base, false);
}

// ------------------------------------------------------------------------------------------------
// `[E]` / `str` allocated DIRECTLY through the crate's own `SlicePtrMeta` / `StrPtrMeta` (the public per-value
// metadata API, not the slice builders): the layout comes from `<SlicePtrMeta as AllocMeta<[E], M>>::layout`.
// ------------------------------------------------------------------------------------------------
fn batch_direct_slice<E: Plain>(ctx: &mut Ctx, lens: &[usize]) {
    use gc_arena::slice::SlicePtrMeta;
    let (es, ea) = (size_of::<E>(), align_of::<E>());
    println!("CASE direct slice (SlicePtrMeta) e={},{}", es, ea);
    let base = keep_len(ctx, lens.len());
    let mut recs: Vec<Rec> = Vec::with_capacity(lens.len());
    {
        let Ctx { arena, st } = ctx;
        for &len in lens {
            if es.saturating_mul(len) > st.max_bytes {
                continue;
            }
            let mut r = new_rec(st, format!("D {} {}", es, log2(ea)), true, usize_meta(), len);
            r.val_size = es * len;
            r.val_align = ea;
            r.keep_index = base + recs.len();
            arena.mutate_root(|mc, root| {
                talloc::log_start();
                let mut builder = unsafe { GcBuilder::<[E], (), SlicePtrMeta>::new_with_type_and_ptr_meta::<UnitTypeMeta>(len) };
                let sp = builder.as_ptr();
                r.addr = sp as *mut u8 as usize;
                let d = rec_desc(&r);
                if sp.len() != len {
                    st.viol(&d, &format!("builder pointer has length {} for metadata {}", sp.len(), len));
                }
                let writable = place(st, &mut r);
                check_logged(st, &r, "GcBuilder::<[E], (), SlicePtrMeta>::new_with_type_and_ptr_meta");
                talloc::log_stop();
                unsafe { fill(r.addr as *mut u8, writable, r.obj) };
                let gc = unsafe { builder.assume_init(mc) };
                let p: *const [E] = Gc::as_ptr(gc);
                if p as *const u8 as usize != r.addr || p.len() != len {
                    st.viol(&d, &format!("Gc::as_ptr = ({:#x}, len {}) expected ({:#x}, len {})", p as *const u8 as usize, p.len(), r.addr, len));
                }
                let back: *const [E] = Gc::as_ptr(Gc::as_fat(Gc::as_thin(gc)));
                if back as *const u8 as usize != r.addr || back.len() != len {
                    st.viol(&d, "as_thin/as_fat round trip changed the pointer or the length");
                }
                root.keep.push(Gc::erase(gc));
            });
            recs.push(r);
        }
    }
    for round in 0..3 {
        collect_and_check(ctx, &recs, round, true);
    }
    release_and_report_opt(ctx, &recs, base, false);
}

// ------------------------------------------------------------------------------------------------
// slices
// ------------------------------------------------------------------------------------------------
fn usize_meta() -> (usize, usize) {
    (size_of::<usize>(), align_of::<usize>())
}

fn batch_slice<E: Plain>(ctx: &mut Ctx, lens: &[usize]) {
    let (es, ea) = (size_of::<E>(), align_of::<E>());
    println!("CASE slice e={},{}", es, ea);
    let base = keep_len(ctx, lens.len());
    let mut recs: Vec<Rec> = Vec::with_capacity(lens.len());
    {
        let Ctx { arena, st } = ctx;
        for &len in lens {
            if es.saturating_mul(len) > st.max_bytes {
                continue;
            }
            let mut r = new_rec(st, format!("S {} {}", es, log2(ea)), false, usize_meta(), len);
            r.val_size = es * len;
            r.val_align = ea;
            r.keep_index = base + recs.len();
            arena.mutate_root(|mc, root| {
                talloc::log_start();
                let mut builder = GcSliceBuilder::<E>::new(len);
                let sp = builder.slice_ptr();
                r.addr = sp as *mut u8 as usize;
                let d = rec_desc(&r);
                if sp.len() != len {
                    st.viol(&d, &format!("slice_ptr().len() = {} for a builder of length {}", sp.len(), len));
                }
                let writable = place(st, &mut r);
                check_logged(st, &r, "GcSliceBuilder::new");
                talloc::log_stop();
                unsafe { fill(r.addr as *mut u8, writable, r.obj) };
                let gc = unsafe { builder.assume_init(mc) };
                let p: *const [E] = Gc::as_ptr(gc);
                if p as *const u8 as usize != r.addr || p.len() != len {
                    st.viol(&d, &format!("Gc::as_ptr = ({:#x}, len {}) expected ({:#x}, len {})",
                        p as *const u8 as usize, p.len(), r.addr, len));
                }
                let sv = core::mem::size_of_val(unsafe { &*p });
                if sv != r.val_size || core::mem::align_of_val(unsafe { &*p }) != ea {
                    st.viol(&d, &format!("HARNESS size_of_val = {} expected {}", sv, r.val_size));
                }
                let back: gc_arena::GcSlice<'_, E> = unsafe { Gc::from_ptr_with_kind(p) };
                let bp: *const [E] = Gc::as_ptr(back);
                if bp as *const u8 as usize != r.addr || bp.len() != len {
                    st.viol(&d, "as_ptr/from_ptr_with_kind round trip changed pointer or length");
                }
                let thin: GcThinSlice<'_, E> = Gc::as_thin(gc);
                let tp = Gc::as_thin_ptr(thin);
                let fp: *const [E] = Gc::as_ptr(thin);
                let fat = Gc::as_fat(thin);
                let fp2: *const [E] = Gc::as_ptr(fat);
                if tp as usize != r.addr || fp as *const u8 as usize != r.addr || fp.len() != len
                    || fp2 as *const u8 as usize != r.addr || fp2.len() != len
                {
                    st.viol(&d, &format!("thin/fat round trip: thin={:#x} fat=({:#x},{}) fat2=({:#x},{}) expected ({:#x},{})",
                        tp as usize, fp as *const u8 as usize, fp.len(), fp2 as *const u8 as usize, fp2.len(), r.addr, len));
                }
                if let Some(j) = unsafe { first_mismatch(p as *const u8, writable, r.obj) } {
                    st.viol(&d, &format!("value byte {} differs right after assume_init", j));
                }
                root.keep.push(Gc::erase(gc));
            });
            recs.push(r);
        }
    }
    for round in 0..3 {
        collect_and_check(ctx, &recs, round, true);
        // typed part after the collection: the length is re-read from the block
        let Ctx { arena, st } = ctx;
        arena.mutate(|_, _| {
            for r in recs.iter() {
                let thin: GcThinSlice<'_, E> =
                    unsafe { GcThinSlice::from_thin_ptr_with_kind(r.addr as *const ()) };
                let fp: *const [E] = Gc::as_ptr(thin);
                if fp as *const u8 as usize != r.addr || fp.len() != r.len {
                    st.viol(&rec_desc(r), &format!("after collection round {}: thin->fat gives ({:#x}, len {}) expected ({:#x}, len {})",
                        round, fp as *const u8 as usize, fp.len(), r.addr, r.len));
                }
            }
        });
    }
    release_and_report(ctx, &recs, base);
}

fn batch_str(ctx: &mut Ctx, lens: &[usize]) {
    println!("CASE str");
    let base = keep_len(ctx, lens.len());
    let mut recs: Vec<Rec> = Vec::with_capacity(lens.len());
    {
        let Ctx { arena, st } = ctx;
        for &len in lens {
            if len > st.max_bytes {
                continue;
            }
            let mut r = new_rec(st, "T".to_string(), false, usize_meta(), len);
            r.val_size = len;
            r.val_align = 1;
            r.keep_index = base + recs.len();
            arena.mutate_root(|mc, root| {
                talloc::log_start();
                let mut builder = GcStrBuilder::new(len);
                let sp = builder.str_ptr();
                r.addr = sp as *mut u8 as usize;
                let d = rec_desc(&r);
                let writable = place(st, &mut r);
                check_logged(st, &r, "GcStrBuilder::new");
                talloc::log_stop();
                // ASCII pattern so the str is valid UTF-8
                for j in 0..writable {
                    unsafe { (r.addr as *mut u8).add(j).write(pat(r.obj, j) & 0x7f) };
                }
                let gc = unsafe { builder.assume_init(mc) };
                let p: *const str = Gc::as_ptr(gc);
                let plen = unsafe { &*p }.len();
                if p as *const u8 as usize != r.addr || plen != len {
                    st.viol(&d, &format!("Gc::as_ptr = ({:#x}, len {}) expected ({:#x}, len {})",
                        p as *const u8 as usize, plen, r.addr, len));
                }
                let thin: GcThinStr<'_> = Gc::as_thin(gc);
                let fat = Gc::as_fat(thin);
                let s: &str = fat.as_ref();
                if s.as_ptr() as usize != r.addr || s.len() != len || Gc::as_thin_ptr(thin) as usize != r.addr {
                    st.viol(&d, &format!("thin/fat round trip gives ({:#x}, len {})", s.as_ptr() as usize, s.len()));
                }
                for (j, b) in s.bytes().enumerate().take(writable) {
                    if b != pat(r.obj, j) & 0x7f {
                        st.viol(&d, &format!("str byte {} differs right after assume_init", j));
                        break;
                    }
                }
                root.keep.push(Gc::erase(gc));
            });
            recs.push(r);
        }
    }
    for round in 0..3 {
        collect_and_check(ctx, &recs, round, false);
        let Ctx { arena, st } = ctx;
        arena.mutate(|_, _| {
            for r in recs.iter() {
                let thin: GcThinStr<'_> = unsafe { GcThinStr::from_thin_ptr_with_kind(r.addr as *const ()) };
                let s: &str = Gc::as_fat(thin).as_ref();
                if s.as_ptr() as usize != r.addr || s.len() != r.len {
                    st.viol(&rec_desc(r), &format!("after collection round {}: thin->fat gives ({:#x}, len {}) expected len {}",
                        round, s.as_ptr() as usize, s.len(), r.len));
                    continue;
                }
                if r.block.is_some() {
                    for (j, b) in s.bytes().enumerate() {
                        if b != pat(r.obj, j) & 0x7f {
                            st.viol(&rec_desc(r), &format!("str byte {} changed after collection round {}", j, round));
                            break;
                        }
                    }
                }
            }
        });
    }
    release_and_report(ctx, &recs, base);
}

// ------------------------------------------------------------------------------------------------
// slice with header
// ------------------------------------------------------------------------------------------------
fn round_up(x: usize, a: usize) -> usize {
    x.div_ceil(a) * a
}

fn batch_swh<H: Plain, E: Plain>(ctx: &mut Ctx, lens: &[usize]) {
    let (hs, ha) = (size_of::<H>(), align_of::<H>());
    let (es, ea) = (size_of::<E>(), align_of::<E>());
    println!("CASE swh h={},{} e={},{}", hs, ha, es, ea);
    let base = keep_len(ctx, lens.len());
    let mut recs: Vec<Rec> = Vec::with_capacity(lens.len());
    let slice_off = round_up(hs, ea);
    {
        let Ctx { arena, st } = ctx;
        for &len in lens {
            if es.saturating_mul(len) > st.max_bytes {
                continue;
            }
            let mut r = new_rec(st, format!("W {} {} {} {}", hs, log2(ha), es, log2(ea)), false, usize_meta(), len);
            // the extent of a repr(C) { header: H, slice: [E; len] }; cross-checked with rustc's
            // size_of_val below
            r.val_align = ha.max(ea);
            r.val_size = round_up(slice_off + es * len, r.val_align);
            r.keep_index = base + recs.len();
            arena.mutate_root(|mc, root| {
                talloc::log_start();
                let mut builder = GcSliceWithHeaderBuilder::<H, E>::new(len);
                r.addr = builder.header_ptr() as usize;
                let d = rec_desc(&r);
                let writable = place(st, &mut r);
                check_logged(st, &r, "GcSliceWithHeaderBuilder::new");
                talloc::log_stop();
                unsafe { fill(r.addr as *mut u8, writable, r.obj) };
                let mut sb = unsafe { builder.assume_init() };
                let sp = sb.slice_ptr();
                if sp.len() != len || sp as *mut u8 as usize != r.addr + slice_off || !(sp as *mut u8 as usize).is_multiple_of(ea) {
                    st.viol(&d, &format!("slice_ptr() = (value+{}, len {}) expected (value+{}, len {})",
                        (sp as *mut u8 as usize).wrapping_sub(r.addr), sp.len(), slice_off, len));
                }
                let gc = unsafe { sb.assume_init(mc) };
                let p: *const SliceWithHeader<H, E> = Gc::as_ptr(gc);
                let plen = unsafe { (&raw const (*p).slice).len() };
                if p as *const u8 as usize != r.addr || plen != len {
                    st.viol(&d, &format!("Gc::as_ptr = ({:#x}, len {}) expected ({:#x}, len {})",
                        p as *const u8 as usize, plen, r.addr, len));
                }
                let sv = core::mem::size_of_val(unsafe { &*p });
                let av = core::mem::align_of_val(unsafe { &*p });
                if sv != r.val_size || av != r.val_align {
                    st.viol(&d, &format!("HARNESS size_of_val/align_of_val = ({},{}) but harness computed ({},{})",
                        sv, av, r.val_size, r.val_align));
                }
                let back: gc_arena::GcSliceWithHeader<'_, H, E> = unsafe { Gc::from_ptr_with_kind(p) };
                let bp: *const SliceWithHeader<H, E> = Gc::as_ptr(back);
                if bp as *const u8 as usize != r.addr || unsafe { (&raw const (*bp).slice).len() } != len {
                    st.viol(&d, "as_ptr/from_ptr_with_kind round trip changed pointer or length");
                }
                let thin: GcThinSliceWithHeader<'_, H, E> = Gc::as_thin(gc);
                let tp = Gc::as_thin_ptr(thin);
                let fp: *const SliceWithHeader<H, E> = Gc::as_ptr(thin);
                let fl = unsafe { (&raw const (*fp).slice).len() };
                let fat = Gc::as_fat(thin);
                let fp2: *const SliceWithHeader<H, E> = Gc::as_ptr(fat);
                let fl2 = unsafe { (&raw const (*fp2).slice).len() };
                if tp as usize != r.addr || fp as *const u8 as usize != r.addr || fl != len
                    || fp2 as *const u8 as usize != r.addr || fl2 != len
                {
                    st.viol(&d, &format!("thin/fat round trip: thin={:#x} fat=({:#x},{}) fat2=({:#x},{}) expected ({:#x},{})",
                        tp as usize, fp as *const u8 as usize, fl, fp2 as *const u8 as usize, fl2, r.addr, len));
                }
                if let Some(j) = unsafe { first_mismatch(p as *const u8, writable, r.obj) } {
                    st.viol(&d, &format!("value byte {} differs right after assume_init", j));
                }
                root.keep.push(Gc::erase(gc));
            });
            recs.push(r);
        }
    }
    for round in 0..3 {
        collect_and_check(ctx, &recs, round, true);
        let Ctx { arena, st } = ctx;
        arena.mutate(|_, _| {
            for r in recs.iter() {
                let thin: GcThinSliceWithHeader<'_, H, E> =
                    unsafe { GcThinSliceWithHeader::from_thin_ptr_with_kind(r.addr as *const H) };
                let fp: *const SliceWithHeader<H, E> = Gc::as_ptr(thin);
                let fl = unsafe { (&raw const (*fp).slice).len() };
                if fp as *const u8 as usize != r.addr || fl != r.len {
                    st.viol(&rec_desc(r), &format!("after collection round {}: thin->fat gives ({:#x}, len {}) expected ({:#x}, len {})",
                        round, fp as *const u8 as usize, fl, r.addr, r.len));
                }
            }
        });
    }
    release_and_report(ctx, &recs, base);
}

// ------------------------------------------------------------------------------------------------
// requests that must be rejected (layout overflow) — only run when std itself says the crate's
// own computation cannot produce a layout, so nothing huge is ever really allocated
// ------------------------------------------------------------------------------------------------
fn std_says_reject(meta: Layout, value: Option<Layout>) -> Option<u8> {
    let Some(value) = value else { return Some(1) };
    let hdr = Layout::from_size_align(hdr_bytes(), 8).unwrap();
    let mh = meta.extend(hdr).ok()?.0.pad_to_align();
    match mh.extend(value) {
        Ok(_) => None,
        Err(_) => Some(2),
    }
}

fn swh_value_layout<H, E>(len: usize) -> Option<Layout> {
    let arr = Layout::array::<E>(len).ok()?;
    Some(Layout::new::<H>().extend(arr).ok()?.0.pad_to_align())
}

fn panic_code(p: Box<dyn std::any::Any + Send>) -> (u8, String) {
    let msg = if let Some(s) = p.downcast_ref::<String>() {
        s.clone()
    } else if let Some(s) = p.downcast_ref::<&'static str>() {
        s.to_string()
    } else {
        "<non-string panic>".to_string()
    };
    let code = if msg.contains("no layout for value") {
        1
    } else if msg.contains("no layout for GC allocation") {
        2
    } else {
        9
    };
    (code, msg)
}

fn reject_swh<H: Plain, E: Plain>(ctx: &mut Ctx, kind: &str, slice_kind: u8) {
    let (es, ea) = (size_of::<E>(), align_of::<E>());
    let lim = 1usize << (usize::BITS - 1);
    let mut lens = vec![usize::MAX, usize::MAX / 2, lim, lim - 1, lim - 24, lim - 25, lim - 64];
    if es > 0 {
        let t = (lim - ea) / es;
        for d in 0..4 {
            lens.push(t + 1 - d.min(t + 1));
            lens.push(t.saturating_sub(24 / es + d));
        }
    }
    lens.sort();
    lens.dedup();
    println!("CASE reject {}", kind);
    for len in lens {
        let value = if slice_kind == 2 { swh_value_layout::<H, E>(len) } else { swh_value_layout::<(), E>(len) };
        let Some(expect) = std_says_reject(Layout::new::<usize>(), value) else { continue };
        let (live0, _) = talloc::live();
        let res = catch_unwind(AssertUnwindSafe(|| match slice_kind {
            0 => drop(GcSliceBuilder::<E>::new(len)),
            1 => drop(GcStrBuilder::new(len)),
            _ => drop(GcSliceWithHeaderBuilder::<H, E>::new(len)),
        }))
        .map_err(|p| {
            // the payload is dropped here; keep the message only when it is unexpected
            let (code, msg) = panic_code(p);
            (code, if code == 9 { msg } else { String::new() })
        });
        let (live1, _) = talloc::live();
        let d = format!("kind=[{}] len={}", kind, len);
        match res {
            Ok(()) => ctx.st.viol(&d, "a request whose layout overflows was accepted"),
            Err((code, msg)) => {
                if code == 9 {
                    ctx.st.viol(&d, &format!("unexpected panic message: {}", msg));
                }
                let _ = expect;
                println!("L 0 {} {} {} {} P {}", size_of::<usize>(), log2(align_of::<usize>()), kind, len, code);
                ctx.st.objects += 1;
            }
        }
        if live1 != live0 {
            ctx.st.viol(&d, "a rejected request leaked an allocation");
        }
    }
}

// ------------------------------------------------------------------------------------------------
// flags through the verification hooks (only with --cfg gc_arena_verif)
// ------------------------------------------------------------------------------------------------
#[cfg(gc_arena_verif)]
fn flags_via_hooks(ctx: &mut Ctx) {
    #[derive(Collect)]
    #[collect(no_drop)]
    struct Tracing<'gc>(Option<Gc<'gc, A8<8>>>);

    println!("CASE flags-via-hooks");
    let base = keep_len(ctx, 4);
    let (a_plain, a_tracing) = ctx.arena.mutate_root(|mc, root| {
        let inner = Gc::new(mc, A8::<8>([1; 8]));
        let outer = Gc::new(mc, Tracing(Some(inner)));
        root.keep.push(Gc::erase(outer));
        (Gc::as_ptr(inner) as usize, Gc::as_ptr(outer) as usize)
    });
    let check = |ctx: &mut Ctx, when: &str, exp_color: u8| {
        let snap = ctx.arena.verif_snapshot();
        for (addr, nt) in [(a_plain, false), (a_tracing, true)] {
            match snap.all.iter().find(|o| o.addr == addr) {
                None => ctx.st.viol("flags-via-hooks", &format!("{}: object {:#x} not on the allocation chain", when, addr)),
                Some(o) => {
                    if o.color != exp_color || o.needs_trace != nt || !o.live {
                        ctx.st.viol("flags-via-hooks", &format!(
                            "{}: flags (color {}, needs_trace {}, live {}) expected (color {}, needs_trace {}, live true)",
                            when, o.color, o.needs_trace, o.live, exp_color, nt));
                    }
                }
            }
        }
    };
    check(ctx, "after allocation", 0);
    let _ = ctx.arena.finish_marking();
    check(ctx, "after finish_marking", 3);
    ctx.arena.finish_cycle();
    check(ctx, "after finish_cycle", 0);
    ctx.arena.mutate_root(|_, root| root.keep.truncate(base));
    ctx.arena.finish_cycle();
    ctx.arena.finish_cycle();
    let snap = ctx.arena.verif_snapshot();
    if snap.all.iter().any(|o| o.addr == a_plain || o.addr == a_tracing) {
        ctx.st.viol("flags-via-hooks", "unreachable objects still on the chain after two full cycles");
    }
    println!("FLAGS-HOOKS done");
}

#[cfg(not(gc_arena_verif))]
fn flags_via_hooks(_ctx: &mut Ctx) {
    println!("FLAGS-HOOKS skipped (built without --cfg gc_arena_verif)");
}

// ------------------------------------------------------------------------------------------------
// grids
// ------------------------------------------------------------------------------------------------
/// Run one batch; a panic inside the crate on a valid request is reported and the run goes on
/// with a fresh arena.
fn guarded(ctx: &mut Ctx, what: &str, f: impl FnOnce(&mut Ctx)) {
    let r = catch_unwind(AssertUnwindSafe(|| f(ctx)));
    if let Err(p) = r {
        talloc::log_stop();
        let (_, msg) = panic_code(p);
        ctx.st.viol(what, &format!("panic inside gc-arena on a valid request: {}", msg));
        let old = std::mem::replace(&mut ctx.arena, TestArena::new(|_| Root { keep: Vec::new() }));
        std::mem::forget(old);
        ctx.st.drain_alloc_errors(what);
    }
}

macro_rules! sized_grid {
    ($ctx:expr; $($a:ident),*) => {
        $( sized_grid!(@one $ctx; $a; 0, 1, 3, 8, 9, 17, 24, 33, 64, 100, 255, 1000, 4097); )*
    };
    (@one $ctx:expr; $a:ident; $($s:literal),*) => {
        $( guarded($ctx, concat!("sized ", stringify!($a), "<", stringify!($s), ">"), |c| batch_sized::<$a<$s>>(c)); )*
    };
}

macro_rules! slice_grid {
    ($ctx:expr, $lens:expr; $($t:ty),* $(,)?) => { $( guarded($ctx, concat!("slice of ", stringify!($t)), |c| batch_slice::<$t>(c, $lens)); )* };
}

macro_rules! swh_grid {
    ($ctx:expr, $lens:expr; [$($h:ty),* $(,)?]; $es:tt) => { $( swh_grid!(@row $ctx, $lens; $h; $es); )* };
    (@row $ctx:expr, $lens:expr; $h:ty; [$($e:ty),* $(,)?]) => { $( guarded($ctx, concat!("slice-with-header ", stringify!($h), " / ", stringify!($e)), |c| batch_swh::<$h, $e>(c, $lens)); )* };
}

macro_rules! custom_grid {
    ($ctx:expr; [$(($md:ty, $v:expr)),* $(,)?]; $ts:tt) => { $( custom_grid!(@row $ctx; $md, $v; $ts); )* };
    (@row $ctx:expr; $md:ty, $v:expr; [$($t:ty),* $(,)?]) => { $( guarded($ctx, concat!("custom metadata ", stringify!($md), " / ", stringify!($t)), |c| batch_custom::<$md, $t>(c, $v)); )* };
}

fn run_all(thorough: bool, seed: u64) -> (usize, usize) {
    let mut rng = layout_harness::Rng::new(seed ^ 0xC17);
    let arena = TestArena::new(|_| Root { keep: Vec::new() });
    let mut ctx = Ctx {
        arena,
        st: St {
            next_obj: 1,
            viols: 0,
            objects: 0,
            max_bytes: if thorough { 8 << 20 } else { 1 << 20 },
            err_seen: 0,
        },
    };
    let ctx = &mut ctx;

    // lengths: 0..=64, some large, some seeded
    let mut lens: Vec<usize> = (0..=64).collect();
    lens.extend([100, 255, 1000, 4096, 4097]);
    for _ in 0..(if thorough { 24 } else { 6 }) {
        lens.push(65 + rng.below(if thorough { 70000 } else { 9000 }) as usize);
    }
    lens.sort();
    lens.dedup();

    guarded(ctx, "flags via hooks", flags_via_hooks);

    sized_grid!(ctx; A1, A2, A4, A8, A16, A32, A64, A128, A256, A1024, A4096, A65536);
    #[cfg(feature = "thorough")]
    sized_grid!(ctx; A512);

    slice_grid!(ctx, &lens;
        A1<0>, A1<1>, A1<3>, A1<7>, A2<2>, A2<6>, A4<4>, A4<12>, A8<0>, A8<8>, A8<24>, A16<16>,
        A16<48>, A32<1>, A64<0>, A64<64>, A128<1>, A256<256>, A1024<1>, A4096<1>, A65536<1>,
    );
    guarded(ctx, "str", |c| batch_str(c, &lens));

    swh_grid!(ctx, &lens;
        [A1<0>, A1<1>, A1<3>, A2<2>, A4<4>, A8<0>, A8<8>, A8<24>, A16<16>, A64<0>, A64<1>, A4096<1>];
        [A1<0>, A1<1>, A1<5>, A2<2>, A4<12>, A8<8>, A8<24>, A16<0>, A16<16>, A32<32>, A128<1>, A1024<1>]
    );
    #[cfg(feature = "thorough")]
    swh_grid!(ctx, &lens;
        [A1<17>, A2<0>, A4<0>, A16<0>, A32<32>, A128<128>, A256<1>, A1024<1024>, A65536<1>];
        [A1<0>, A1<2>, A2<6>, A4<4>, A8<0>, A8<40>, A64<64>, A256<256>, A4096<1>, A65536<1>]
    );

    custom_grid!(ctx;
        [(u8, 7u8), (u16, 7u16), ([u8; 3], [1u8, 2, 3]), (u32, 9u32), (u64, 9u64), (u128, 5u128),
         (A32<32>, A32([3; 32])), (A64<0>, A64([])), (A4096<1>, A4096([1])), ([u64; 5], [1u64; 5])];
        [A1<0>, A1<1>, A4<4>, A8<24>, A16<16>, A64<0>, A128<1>, A4096<1>]
    );

    for (name, f) in [
        ("compact length u8", batch_compact::<u8> as fn(&mut Ctx, &[usize])),
        ("compact length u16", batch_compact::<u16>),
        ("compact length u32", batch_compact::<u32>),
        ("compact length u64", batch_compact::<u64>),
    ] {
        guarded(ctx, name, |c| f(c, &[0, 1, 5, 13, 200, 255, 256, 4099]));
    }

    guarded(ctx, "direct slice u8", |c| batch_direct_slice::<u8>(c, &[0, 1, 5, 13, 200]));
    guarded(ctx, "direct slice u16", |c| batch_direct_slice::<u16>(c, &[0, 1, 5, 13, 200]));
    guarded(ctx, "direct slice u64", |c| batch_direct_slice::<u64>(c, &[0, 1, 5, 13, 200]));
    guarded(ctx, "direct slice A16<16>", |c| batch_direct_slice::<A16<16>>(c, &[0, 1, 3, 17]));
    guarded(ctx, "direct slice A32<32>", |c| batch_direct_slice::<A32<32>>(c, &[0, 1, 3, 17]));
    guarded(ctx, "direct slice A4<12>", |c| batch_direct_slice::<A4<12>>(c, &[0, 1, 2, 9]));

    // rejected requests
    reject_swh::<(), A1<1>>(ctx, "T", 1);
    reject_swh::<(), A8<8>>(ctx, "S 8 3", 0);
    reject_swh::<(), A1<3>>(ctx, "S 3 0", 0);
    reject_swh::<(), A64<64>>(ctx, "S 64 6", 0);
    reject_swh::<(), A4096<1>>(ctx, "S 4096 12", 0);
    reject_swh::<A8<24>, A8<8>>(ctx, "W 24 3 8 3", 2);
    reject_swh::<A64<1>, A2<6>>(ctx, "W 64 6 6 1", 2);
    reject_swh::<A1<3>, A4096<1>>(ctx, "W 3 0 4096 12", 2);

    talloc::check_all_guards();
    ctx.st.drain_alloc_errors("end of run");
    (ctx.st.objects, ctx.st.viols)
}

fn main() {
    install_panic_hook();
    let tier = arg_value("--tier").unwrap_or_else(|| "quick".into());
    let seed: u64 = arg_value("--seed").and_then(|s| s.parse().ok()).unwrap_or(1);
    let thorough = tier == "thorough";
    if let Some(h) = arg_value("--hdr-bytes").and_then(|s| s.parse().ok()) {
        HDR_BYTES.store(h, std::sync::atomic::Ordering::Relaxed);
    }

    // platform constants the model is instantiated with (checked by the Python side)
    println!(
        "PLATFORM usize_bits={} usize_size={} usize_align={} gc_ptr_size={} debug_assertions={} hooks={} thorough_grid={}",
        usize::BITS, size_of::<usize>(), align_of::<usize>(), size_of::<Gc<'static, ()>>(),
        cfg!(debug_assertions), cfg!(gc_arena_verif), cfg!(feature = "thorough")
    );
    let (live0, _) = talloc::live();
    let (objects, mut viols) = run_all(thorough, seed);
    // the arena is gone: every block it ever allocated must have been returned
    let (live1, _) = talloc::live();
    if live1 != live0 {
        viols += 1;
        println!("VIOL end-of-run :: {} allocator blocks outstanding after the arena was dropped (started with {})", live1, live0);
    }
    println!("SUMMARY objects={} viols={} alloc_errors={}", objects, viols, talloc::error_count());
    println!("END");
}
