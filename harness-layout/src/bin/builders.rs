//! C18 correspondence + oracle harness: every builder kind x every abandonment point x element /
//! header types with and without destructors, zero-sized and over-aligned.
//!
//! For each scenario one `B ...` line is printed with the ordered events observed between
//! `new` and the end of the builder's life (allocator calls on the builder's block, panic,
//! destructor tokens), the change of `total_gc_count` / `allocation_debt`, whether the value is
//! on the arena's allocation chain, and the contents read back from a completed value.  The Coq
//! model must reproduce the line.  `VIOL ...` lines report failures of the model-independent
//! oracle: every token moved into a builder is destructed exactly once (at abandonment, or when
//! the completed value is collected), nothing else is destructed, the block is freed exactly
//! once with the layout it was allocated with, an abandoned builder changes neither Gc count
//! nor debt and is never traced, a completed one adds exactly one Gc.

use core::mem::{align_of, size_of};
use std::collections::{HashMap, HashSet};
use std::panic::{catch_unwind, AssertUnwindSafe};

use gc_arena::collect::Trace;
use gc_arena::slice::GcSliceWithHeaderSliceBuilder;
use gc_arena::{
    Arena, Collect, Gc, GcBuilder, GcSliceBuilder, GcSliceWithHeaderBuilder, GcStrBuilder, Mutation,
    Rootable, Static,
};
use layout_harness::talloc::{
    self, Block, Event, EV_ALLOC, EV_DROP_ELEM, EV_DROP_HDR, EV_DROP_VALUE, EV_FREE, EV_PANIC, EV_TRACE,
};
use layout_harness::types::*;
use layout_harness::{arg_value, install_panic_hook, log2};

const ELEM_BASE: usize = 1000; // CaseCheck.elem_val
const HDR_ID: usize = 999; // CaseCheck.hdr_val
const VALUE_ID: usize = 7; // CaseCheck.sized_val
const ANON: usize = 0xFFFF; // zero-sized tokens cannot carry an id

#[derive(Collect)]
#[collect(no_drop)]
struct Root<'gc> {
    anchor: Gc<'gc, u8>,
    keep: Vec<Gc<'gc, ()>>,
}
type TestArena = Arena<Rootable![Root<'_>]>;

// ------------------------------------------------------------------------------------------------
// token types
// ------------------------------------------------------------------------------------------------
macro_rules! token {
    ($name:ident, $ev:expr, $(#[$attr:meta])*) => {
        $(#[$attr])*
        struct $name {
            id: usize,
        }
        impl Drop for $name {
            fn drop(&mut self) {
                talloc::log_event($ev, self.id, 0, 0);
            }
        }
        unsafe impl<'gc> Collect<'gc> for $name {
            const NEEDS_TRACE: bool = true;
            fn trace<T: Trace<'gc>>(&self, _cc: &mut T) {
                talloc::log_event(EV_TRACE, self.id, 0, 0);
            }
        }
    };
}
macro_rules! ztoken {
    ($name:ident, $ev:expr) => {
        struct $name;
        impl Drop for $name {
            fn drop(&mut self) {
                talloc::log_event($ev, ANON, 0, 0);
            }
        }
        unsafe impl<'gc> Collect<'gc> for $name {
            const NEEDS_TRACE: bool = true;
            fn trace<T: Trace<'gc>>(&self, _cc: &mut T) {
                talloc::log_event(EV_TRACE, ANON, 0, 0);
            }
        }
    };
}

token!(Tok, EV_DROP_ELEM,);
token!(TokA, EV_DROP_ELEM, #[repr(align(64))]);
ztoken!(TokZ, EV_DROP_ELEM);
token!(HTok, EV_DROP_HDR,);
token!(HTokA, EV_DROP_HDR, #[repr(align(128))]);
ztoken!(HTokZ, EV_DROP_HDR);
token!(VTok, EV_DROP_VALUE,);
token!(VTokA, EV_DROP_VALUE, #[repr(align(256))]);
ztoken!(VTokZ, EV_DROP_VALUE);

/// element / header / value types of the grid
trait Item: 'static + for<'gc> Collect<'gc> {
    const HAS_DROP: bool;
    const ANON: bool;
    fn make(id: usize) -> Self;
    /// the id stored in the value, if it can store one
    fn ident(&self) -> Option<usize>;
}

macro_rules! item_token {
    ($($t:ident),*) => { $(
        impl Item for $t {
            const HAS_DROP: bool = true;
            const ANON: bool = false;
            fn make(id: usize) -> Self { $t { id } }
            fn ident(&self) -> Option<usize> { Some(self.id) }
        }
    )* };
}
macro_rules! item_ztoken {
    ($($t:ident),*) => { $(
        impl Item for $t {
            const HAS_DROP: bool = true;
            const ANON: bool = true;
            fn make(_: usize) -> Self { $t }
            fn ident(&self) -> Option<usize> { None }
        }
    )* };
}
item_token!(Tok, TokA, HTok, HTokA, VTok, VTokA);
item_ztoken!(TokZ, HTokZ, VTokZ);

impl Item for u32 {
    const HAS_DROP: bool = false;
    const ANON: bool = false;
    fn make(id: usize) -> Self { id as u32 }
    fn ident(&self) -> Option<usize> { Some(*self as usize) }
}
impl Item for u64 {
    const HAS_DROP: bool = false;
    const ANON: bool = false;
    fn make(id: usize) -> Self { id as u64 }
    fn ident(&self) -> Option<usize> { Some(*self as usize) }
}
impl Item for u8 {
    const HAS_DROP: bool = false;
    const ANON: bool = false;
    fn make(id: usize) -> Self { (id % 251) as u8 }
    fn ident(&self) -> Option<usize> { None }
}
impl Item for () {
    const HAS_DROP: bool = false;
    const ANON: bool = true;
    fn make(_: usize) -> Self {}
    fn ident(&self) -> Option<usize> { None }
}
impl Item for A64<64> {
    const HAS_DROP: bool = false;
    const ANON: bool = false;
    fn make(id: usize) -> Self {
        let mut b = [0u8; 64];
        b[..8].copy_from_slice(&(id as u64).to_le_bytes());
        A64(b)
    }
    fn ident(&self) -> Option<usize> {
        Some(u64::from_le_bytes(self.0[..8].try_into().unwrap()) as usize)
    }
}
impl Item for A4096<1> {
    const HAS_DROP: bool = false;
    const ANON: bool = false;
    fn make(id: usize) -> Self { A4096([(id % 251) as u8]) }
    fn ident(&self) -> Option<usize> { None }
}

// ------------------------------------------------------------------------------------------------
// bookkeeping
// ------------------------------------------------------------------------------------------------
#[derive(Clone, Copy, PartialEq, Eq, Debug)]
enum Scen {
    AbandonNew,
    AbandonHdr,
    PanicAt(usize),
    Complete,
    Copy(usize),
    Write,
    Assume,
}

impl Scen {
    fn tokens(&self) -> String {
        match self {
            Scen::AbandonNew => "AN".into(),
            Scen::AbandonHdr => "AH".into(),
            Scen::PanicAt(j) => format!("PA {}", j),
            Scen::Complete => "CO".into(),
            Scen::Copy(m) => format!("CP {}", m),
            Scen::Write => "WR".into(),
            Scen::Assume => "AS".into(),
        }
    }
}

/// a completed value that is still alive in the arena
struct Pending {
    desc: String,
    block: Block,
    value_addr: usize,
    tokens: Vec<usize>, // full ids of the tokens it owns
    anon_drops: usize,  // zero-sized tokens it owns (header + elements)
    kept: bool,
}

struct St {
    sid: usize,
    viols: usize,
    scenarios: usize,
    dropped: HashSet<usize>, // full ids dropped so far (double-drop detection)
    pending: Vec<Pending>,
    err_seen: usize,
}

impl St {
    fn viol(&mut self, desc: &str, msg: &str) {
        self.viols += 1;
        println!("VIOL {} :: {}", desc, msg);
    }
    fn drain_alloc_errors(&mut self, desc: &str) {
        let n = talloc::error_count();
        if n > self.err_seen {
            for m in talloc::describe_errors(self.err_seen) {
                self.viol(desc, &m);
            }
            self.err_seen = n;
        }
    }
}

fn full_id(sid: usize, low: usize) -> usize {
    (sid << 16) | low
}

struct Flags {
    hdr_obs: bool,
    elem_obs: bool,
    anon: bool,
}

/// What the typed part reports about one scenario.
struct Outcome {
    /// address of the value inside the builder's block (taken right after `new`)
    value_addr: usize,
    block: Option<Block>,
    panicked: bool,
    /// completed: erased pointer address + contents read back

    hdr: Option<usize>,
    elems: Option<Vec<usize>>,
    /// full ids of tokens that were moved into the builder
    moved: Vec<usize>,
    anon_moved: usize,
}

#[cfg(gc_arena_verif)]
fn on_chain(mc: &Mutation<'_>, addr: usize) -> Option<bool> {
    Some(mc.verif_snapshot().all.iter().any(|o| o.addr == addr))
}
#[cfg(not(gc_arena_verif))]
fn on_chain(_mc: &Mutation<'_>, _addr: usize) -> Option<bool> {
    None
}

/// Run one scenario inside `mutate_root`, print its `B` line and apply the oracle.
fn scenario<'gc, F>(
    st: &mut St,
    mc: &'gc Mutation<'gc>,
    root: &mut Root<'gc>,
    kind: &str,
    len: usize,
    sc: Scen,
    fl: &Flags,
    body: F,
) where
    F: FnOnce(usize, &mut Outcome) -> Option<Gc<'gc, ()>>,
{
    st.sid += 1;
    st.scenarios += 1;
    let sid = st.sid;
    let desc = format!("kind=[{}] len={} scenario={} flags=({},{},{})", kind, len, sc.tokens(),
        fl.hdr_obs as u8, fl.elem_obs as u8, fl.anon as u8);
    root.keep.reserve(1);
    mc.metrics().adjust_debt(1.0e6);
    let count0 = mc.metrics().total_gc_count();
    let debt0 = mc.metrics().allocation_debt();
    let mut out = Outcome {
        value_addr: 0, block: None, panicked: false, hdr: None, elems: None,
        moved: Vec::with_capacity(len + 1), anon_moved: 0,
    };
    let (live0, _) = talloc::live();
    talloc::log_start();
    let res = catch_unwind(AssertUnwindSafe(|| body(sid, &mut out)));
    talloc::log_stop();
    let gc = match res {
        Ok(g) => g,
        Err(p) => {
            out.panicked = true;
            drop(p);
            None
        }
    };
    let count1 = mc.metrics().total_gc_count();
    let debt1 = mc.metrics().allocation_debt();
    let (live1, _) = talloc::live();
    let log: Vec<Event> = talloc::log_take();
    let Some(block) = out.block else {
        st.viol(&desc, "the builder's value pointer is not inside a live allocator block right after new");
        return;
    };

    // ---- ordered events that concern this builder -------------------------------------------
    let mut ev_tokens: Vec<String> = Vec::new();
    let mut frees: Vec<(usize, usize)> = Vec::new();
    let mut allocs = 0;
    let mut dropped_here: Vec<usize> = Vec::new();
    let mut anon_dropped = 0usize;
    for e in &log {
        match e.kind {
            EV_ALLOC if e.a == block.user => {
                allocs += 1;
                ev_tokens.push(format!("A {} {}", e.b, log2(e.c)));
            }
            EV_FREE if e.a == block.user => {
                frees.push((e.b, e.c));
                ev_tokens.push(format!("F {} {}", e.b, log2(e.c)));
            }
            EV_PANIC => ev_tokens.push("P".into()),
            EV_DROP_HDR | EV_DROP_ELEM | EV_DROP_VALUE => {
                let low = e.a & 0xFFFF;
                if low == ANON {
                    anon_dropped += 1;
                } else {
                    if e.a >> 16 != sid {
                        st.viol(&desc, &format!("a token of scenario {} (id {}) was destructed during this scenario", e.a >> 16, low));
                    }
                    if !st.dropped.insert(e.a) {
                        st.viol(&desc, &format!("token {} destructed twice", low));
                    }
                    dropped_here.push(e.a);
                }
                match e.kind {
                    EV_DROP_HDR => ev_tokens.push("H".into()),
                    EV_DROP_VALUE => ev_tokens.push("V".into()),
                    _ => ev_tokens.push(format!("E {}", if low == ANON { 0 } else { low.wrapping_sub(ELEM_BASE) })),
                }
            }
            EV_TRACE => st.viol(&desc, "a token was traced while its builder was still being constructed"),
            _ => {}
        }
    }
    let dcount = count1.wrapping_sub(count0);
    let ddebt = debt1 - debt0;
    let linked = match gc.and_then(|g| on_chain(mc, Gc::as_ptr(g) as usize)) {
        Some(b) => b,
        None => gc.is_some() && dcount == 1,
    };
    if linked {
        ev_tokens.push("K".into());
    }
    let ddebt_n: usize = if ddebt >= 0.0 && ddebt.fract() == 0.0 && ddebt < 1.0e6 { ddebt as usize } else { 999_999 };
    let hdr_s = match out.hdr { Some(h) => format!("h {}", h), None => "-".into() };
    let elems_s = match &out.elems {
        Some(v) => format!("e {} {}", v.len(), v.iter().map(|x| x.to_string()).collect::<Vec<_>>().join(" ")),
        None => "-".into(),
    };
    println!(
        "B C {} {} {} {} {} {} {} {} {} {} {} {} {}",
        kind, len, sc.tokens(), fl.hdr_obs as u8, fl.elem_obs as u8, fl.anon as u8,
        ev_tokens.len(), ev_tokens.join(" "), dcount, ddebt_n, linked as u8, hdr_s, elems_s.trim_end()
    );

    // ---- oracle -------------------------------------------------------------------------------
    if allocs != 1 {
        st.viol(&desc, &format!("{} alloc events for the builder's block (expected 1)", allocs));
    }
    match gc {
        None => {
            // abandoned: block freed once with the layout it was allocated with
            if frees.len() != 1 {
                st.viol(&desc, &format!("abandoned builder: its block was freed {} times", frees.len()));
            }
            for (s, a) in &frees {
                if (*s, *a) != (block.size, block.align) {
                    st.viol(&desc, &format!("abandoned builder: dealloc layout ({},{}) differs from alloc layout ({},{})",
                        s, a, block.size, block.align));
                }
            }
            if live1 != live0 {
                st.viol(&desc, &format!("abandoned builder: {} allocator blocks outstanding before, {} after", live0, live1));
            }
            if dcount != 0 || ddebt != 0.0 {
                st.viol(&desc, &format!("abandoned builder changed the arena: total_gc_count {:+}, allocation_debt {:+}",
                    dcount as isize, ddebt));
            }
            if let Some(true) = on_chain(mc, out.value_addr) {
                st.viol(&desc, "abandoned builder's value is on the arena's allocation chain");
            }
            // exactly the moved-in tokens are destructed
            let mut moved: Vec<usize> = out.moved.clone();
            moved.sort();
            let mut dropped = dropped_here.clone();
            dropped.sort();
            if moved != dropped || anon_dropped != out.anon_moved {
                let missing: Vec<usize> = moved.iter().filter(|x| !dropped.contains(x)).map(|x| x & 0xFFFF).collect();
                let extra: Vec<usize> = dropped.iter().filter(|x| !moved.contains(x)).map(|x| x & 0xFFFF).collect();
                st.viol(&desc, &format!(
                    "abandoned builder: initialised parts not destructed exactly once: leaked tokens {:?}, spurious drops {:?}, zero-sized drops {} of {}",
                    missing, extra, anon_dropped, out.anon_moved));
            }
        }
        Some(g) => {
            if !frees.is_empty() || !dropped_here.is_empty() || anon_dropped != 0 {
                st.viol(&desc, "completed builder: something was freed or destructed during construction");
            }
            if dcount != 1 || ddebt != 1.0 {
                st.viol(&desc, &format!("completed builder: total_gc_count {:+}, allocation_debt {:+} (expected +1, +1)",
                    dcount as isize, ddebt));
            }
            if out.panicked {
                st.viol(&desc, "completed builder after a panic");
            }
            if let Scen::Copy(m) = sc {
                if m != len {
                    st.viol(&desc, &format!("copy_slice / copy_str accepted a source of length {} for a builder of length {} and \
                                             completed it (a wrong-length copy must panic before anything is written)", m, len));
                }
            }
            let kept = sid % 2 == 0;
            if kept {
                root.keep.push(g);
            }
            st.pending.push(Pending {
                desc: desc.clone(), block, value_addr: Gc::as_ptr(g) as usize,
                tokens: out.moved.clone(), anon_drops: out.anon_moved, kept,
            });
        }
    }
    st.drain_alloc_errors(&desc);
}

/// After a group of scenarios: collect; unreachable completed values must be destructed exactly
/// once and freed with their layout, kept ones must survive (and be traced, not dropped);
/// nothing belonging to an abandoned builder may be traced or destructed.
fn settle(arena: &mut TestArena, st: &mut St) {
    for pass in 0..2 {
        talloc::log_start();
        arena.finish_cycle();
        arena.finish_cycle();
        talloc::log_stop();
        let log = talloc::log_take();
        let mut drops: HashMap<usize, usize> = HashMap::new();
        let mut traced: HashSet<usize> = HashSet::new();
        let mut frees: HashMap<usize, Vec<(usize, usize)>> = HashMap::new();
        let mut anon_drops = 0usize;
        for e in &log {
            match e.kind {
                EV_DROP_HDR | EV_DROP_ELEM | EV_DROP_VALUE => {
                    if e.a & 0xFFFF == ANON { anon_drops += 1 } else { *drops.entry(e.a).or_default() += 1 }
                }
                EV_TRACE => { traced.insert(e.a); }
                EV_FREE => frees.entry(e.a).or_default().push((e.b, e.c)),
                _ => {}
            }
        }
        let mut expected_drops: HashSet<usize> = HashSet::new();
        let mut expected_anon = 0usize;
        let mut alive_tokens: HashSet<usize> = HashSet::new();
        let pend = std::mem::take(&mut st.pending);
        let mut still = Vec::new();
        for p in pend {
            let dying = !p.kept || pass == 1;
            if dying {
                expected_anon += p.anon_drops;
                for t in &p.tokens {
                    expected_drops.insert(*t);
                    match drops.get(t) {
                        Some(1) => { st.dropped.insert(*t); }
                        Some(n) => st.viol(&p.desc, &format!("completed value collected: token {} destructed {} times", t & 0xFFFF, n)),
                        None => st.viol(&p.desc, &format!("completed value collected: token {} never destructed", t & 0xFFFF)),
                    }
                }
                match frees.get(&p.block.user) {
                    Some(v) if v.len() == 1 && v[0] == (p.block.size, p.block.align) => {}
                    Some(v) => st.viol(&p.desc, &format!("completed value collected: block freed as {:?}, allocated as ({},{})", v, p.block.size, p.block.align)),
                    None => st.viol(&p.desc, "completed value unreachable but its block was not freed by two full collections"),
                }
            } else {
                for t in &p.tokens {
                    alive_tokens.insert(*t);
                    if drops.contains_key(t) {
                        st.viol(&p.desc, &format!("token {} of a reachable completed value was destructed", t & 0xFFFF));
                    }
                }
                let (b, n) = talloc::blocks_containing(p.value_addr);
                if n != 1 || b.map(|b| b.user) != Some(p.block.user) {
                    st.viol(&p.desc, "reachable completed value lost its block");
                }
                still.push(p);
            }
        }
        for (t, _) in drops.iter() {
            if !expected_drops.contains(t) {
                st.viol("collection", &format!("token {} of scenario {} destructed by a collection although its builder was abandoned or its value is reachable", t & 0xFFFF, t >> 16));
            }
        }
        if anon_drops != expected_anon {
            st.viol("collection", &format!("{} zero-sized tokens destructed by a collection, expected {}", anon_drops, expected_anon));
        }
        for t in traced.iter() {
            if t & 0xFFFF != ANON && !alive_tokens.contains(t) && !expected_drops.contains(t) {
                st.viol("collection", &format!("token {} of scenario {} was traced although its builder was abandoned", t & 0xFFFF, t >> 16));
            }
        }
        st.pending = still;
        if pass == 0 {
            arena.mutate_root(|_, root| root.keep.clear());
            for p in st.pending.iter_mut() {
                p.kept = false;
            }
        }
    }
    talloc::check_all_guards();
    st.drain_alloc_errors("collection");
}

fn locate(out: &mut Outcome, addr: usize) {
    out.value_addr = addr;
    let (b, n) = talloc::blocks_containing(addr);
    out.block = if n == 1 { b } else { None };
}

static SEED: std::sync::atomic::AtomicU64 = std::sync::atomic::AtomicU64::new(1);

fn ns(thorough: bool) -> Vec<usize> {
    let mut r = layout_harness::Rng::new(SEED.load(std::sync::atomic::Ordering::Relaxed) ^ 0xC18);
    let mut v: Vec<usize> = (0..=12).collect();
    v.extend(if thorough { vec![13, 31, 64, 100, 257, 1000] } else { vec![100, 1000] });
    // seeded lengths
    v.push(13 + r.below(80) as usize);
    if thorough {
        v.push(100 + r.below(3000) as usize);
    }
    v.sort();
    v.dedup();
    v
}

fn panic_points(n: usize) -> Vec<usize> {
    if n <= 12 {
        (0..n).collect()
    } else {
        let mut r = layout_harness::Rng::new(SEED.load(std::sync::atomic::Ordering::Relaxed) ^ (n as u64) << 8);
        let mut v = vec![0, 1, n / 2, n - 2, n - 1, 2 + r.below(n as u64 - 4) as usize];
        v.sort();
        v.dedup();
        v
    }
}

// ------------------------------------------------------------------------------------------------
// slice with header
// ------------------------------------------------------------------------------------------------
/// `new` (+ locate) + `write_header`, through the plain or the `Static` unwrapping path
fn stage2<'gc, H: Item, E: Item, const STATIC: bool>(
    len: usize,
    h: H,
    out: &mut Outcome,
) -> GcSliceWithHeaderSliceBuilder<'gc, H, E> {
    if STATIC {
        let mut b = GcSliceWithHeaderBuilder::<Static<H>, Static<E>>::new(len).unwrap_static_header();
        locate(out, b.header_ptr() as usize);
        b.write_header(h).unwrap_static_element()
    } else {
        let mut b = GcSliceWithHeaderBuilder::<H, E>::new(len);
        locate(out, b.header_ptr() as usize);
        b.write_header(h)
    }
}

fn group_swh<H: Item, E: Item, const STATIC: bool>(arena: &mut TestArena, st: &mut St, thorough: bool) {
    let kind = format!("W {} {} {} {}", size_of::<H>(), log2(align_of::<H>()), size_of::<E>(), log2(align_of::<E>()));
    println!("CASE swh {} static={} hdrop={} edrop={}", kind, STATIC, H::HAS_DROP, E::HAS_DROP);
    let fl = Flags { hdr_obs: H::HAS_DROP, elem_obs: E::HAS_DROP, anon: E::ANON };
    for n in ns(thorough) {
        arena.mutate_root(|mc, root| {
            // abandon before the header
            scenario(st, mc, root, &kind, n, Scen::AbandonNew, &fl, |_sid, out| {
                if STATIC {
                    let mut b = GcSliceWithHeaderBuilder::<Static<H>, Static<E>>::new(n).unwrap_static_header();
                    locate(out, b.header_ptr() as usize);
                    drop(b);
                } else {
                    let mut b = GcSliceWithHeaderBuilder::<H, E>::new(n);
                    locate(out, b.header_ptr() as usize);
                    drop(b);
                }
                None
            });
            // abandon after the header
            scenario(st, mc, root, &kind, n, Scen::AbandonHdr, &fl, |sid, out| {
                if H::HAS_DROP { if H::ANON { out.anon_moved += 1 } else { out.moved.push(full_id(sid, HDR_ID)) } }
                let sb = stage2::<H, E, STATIC>(n, H::make(full_id(sid, HDR_ID)), out);
                drop(sb);
                None
            });
            // abandon after j of n elements
            for j in panic_points(n) {
                scenario(st, mc, root, &kind, n, Scen::PanicAt(j), &fl, |sid, out| {
                    if H::HAS_DROP { if H::ANON { out.anon_moved += 1 } else { out.moved.push(full_id(sid, HDR_ID)) } }
                    let sb = stage2::<H, E, STATIC>(n, H::make(full_id(sid, HDR_ID)), out);
                    let moved = &mut out.moved;
                    let anon = &mut out.anon_moved;
                    let g = sb.write_slice_with(mc, |i| {
                        if i == j {
                            std::panic::panic_any("element constructor panics");
                        }
                        if E::HAS_DROP { if E::ANON { *anon += 1 } else { moved.push(full_id(sid, ELEM_BASE + i)) } }
                        E::make(full_id(sid, ELEM_BASE + i))
                    });
                    Some(Gc::erase(g))
                });
            }
            // completion
            scenario(st, mc, root, &kind, n, Scen::Complete, &fl, |sid, out| {
                if H::HAS_DROP { if H::ANON { out.anon_moved += 1 } else { out.moved.push(full_id(sid, HDR_ID)) } }
                let sb = stage2::<H, E, STATIC>(n, H::make(full_id(sid, HDR_ID)), out);
                let moved = &mut out.moved;
                let anon = &mut out.anon_moved;
                let g = sb.write_slice_with(mc, |i| {
                    if E::HAS_DROP { if E::ANON { *anon += 1 } else { moved.push(full_id(sid, ELEM_BASE + i)) } }
                    E::make(full_id(sid, ELEM_BASE + i))
                });
                out.hdr = g.header.ident().map(|x| x & 0xFFFF);
                out.elems = if E::ANON || g.slice.first().map(|e| e.ident().is_none()).unwrap_or(false) { None } else {
                    Some(g.slice.iter().map(|e| e.ident().unwrap() & 0xFFFF).collect())
                };
                if g.slice.len() != n { out.elems = Some(vec![usize::MAX; g.slice.len()]); }
                Some(Gc::erase(g))
            });
        });
        settle(arena, st);
    }
}

/// copy_slice needs `E: Copy`
fn group_swh_copy<H: Item, E: Item + Copy>(arena: &mut TestArena, st: &mut St, thorough: bool) {
    let kind = format!("W {} {} {} {}", size_of::<H>(), log2(align_of::<H>()), size_of::<E>(), log2(align_of::<E>()));
    println!("CASE swh-copy {} hdrop={}", kind, H::HAS_DROP);
    let fl = Flags { hdr_obs: H::HAS_DROP, elem_obs: false, anon: E::ANON };
    for n in ns(thorough) {
        let mut ms = vec![n, n + 1, n + 7, 0];
        if n > 0 { ms.push(n - 1); }
        ms.sort();
        ms.dedup();
        for m in ms {
            arena.mutate_root(|mc, root| {
                let src_proto: Vec<usize> = (0..m).collect();
                scenario(st, mc, root, &kind, n, Scen::Copy(m), &fl, |sid, out| {
                    let src: Vec<E> = src_proto.iter().map(|&i| E::make(full_id(sid, ELEM_BASE + i) & 0xFFFF)).collect();
                    let mut b = GcSliceWithHeaderBuilder::<H, E>::new(n);
                    locate(out, b.header_ptr() as usize);
                    if H::HAS_DROP { if H::ANON { out.anon_moved += 1 } else { out.moved.push(full_id(sid, HDR_ID)) } }
                    let g = b.write_header(H::make(full_id(sid, HDR_ID))).copy_slice(mc, &src);
                    out.hdr = g.header.ident().map(|x| x & 0xFFFF);
                    out.elems = if E::ANON || g.slice.first().map(|e| e.ident().is_none()).unwrap_or(false) { None } else {
                        Some(g.slice.iter().map(|e| e.ident().unwrap() & 0xFFFF).collect())
                    };
                    Some(Gc::erase(g))
                });
            });
        }
        settle(arena, st);
    }
}

// ------------------------------------------------------------------------------------------------
// slices
// ------------------------------------------------------------------------------------------------
fn slice_builder<'gc, E: Item, const STATIC: bool>(len: usize) -> GcSliceBuilder<'gc, E> {
    if STATIC {
        GcSliceBuilder::<Static<E>>::new(len).unwrap_static()
    } else {
        GcSliceBuilder::<E>::new(len)
    }
}

fn group_slice<E: Item, const STATIC: bool>(arena: &mut TestArena, st: &mut St, thorough: bool) {
    let kind = format!("S {} {}", size_of::<E>(), log2(align_of::<E>()));
    println!("CASE slice {} static={} edrop={}", kind, STATIC, E::HAS_DROP);
    let fl = Flags { hdr_obs: false, elem_obs: E::HAS_DROP, anon: E::ANON };
    for n in ns(thorough) {
        arena.mutate_root(|mc, root| {
            scenario(st, mc, root, &kind, n, Scen::AbandonNew, &fl, |_sid, out| {
                let mut b = slice_builder::<E, STATIC>(n);
                locate(out, b.slice_ptr() as *mut u8 as usize);
                drop(b);
                None
            });
            for j in panic_points(n) {
                scenario(st, mc, root, &kind, n, Scen::PanicAt(j), &fl, |sid, out| {
                    let mut b = slice_builder::<E, STATIC>(n);
                    locate(out, b.slice_ptr() as *mut u8 as usize);
                    let moved = &mut out.moved;
                    let anon = &mut out.anon_moved;
                    let g = b.write_slice_with(mc, |i| {
                        if i == j {
                            std::panic::panic_any("element constructor panics");
                        }
                        if E::HAS_DROP { if E::ANON { *anon += 1 } else { moved.push(full_id(sid, ELEM_BASE + i)) } }
                        E::make(full_id(sid, ELEM_BASE + i))
                    });
                    Some(Gc::erase(g))
                });
            }
            scenario(st, mc, root, &kind, n, Scen::Complete, &fl, |sid, out| {
                let mut b = slice_builder::<E, STATIC>(n);
                locate(out, b.slice_ptr() as *mut u8 as usize);
                let moved = &mut out.moved;
                let anon = &mut out.anon_moved;
                let g = b.write_slice_with(mc, |i| {
                    if E::HAS_DROP { if E::ANON { *anon += 1 } else { moved.push(full_id(sid, ELEM_BASE + i)) } }
                    E::make(full_id(sid, ELEM_BASE + i))
                });
                out.elems = if E::ANON || g.first().map(|e| e.ident().is_none()).unwrap_or(false) { None } else {
                    Some(g.iter().map(|e| e.ident().unwrap() & 0xFFFF).collect())
                };
                if g.len() != n { out.elems = Some(vec![usize::MAX; g.len()]); }
                Some(Gc::erase(g))
            });
            // raw writes + unsafe assume_init
            scenario(st, mc, root, &kind, n, Scen::Assume, &fl, |sid, out| {
                let mut b = slice_builder::<E, STATIC>(n);
                let p = b.slice_ptr() as *mut E;
                locate(out, p as usize);
                for i in 0..n {
                    if E::HAS_DROP { if E::ANON { out.anon_moved += 1 } else { out.moved.push(full_id(sid, ELEM_BASE + i)) } }
                    unsafe { p.add(i).write(E::make(full_id(sid, ELEM_BASE + i))) };
                }
                let g = unsafe { b.assume_init(mc) };
                Some(Gc::erase(g))
            });
        });
        settle(arena, st);
    }
}

fn group_slice_copy<E: Item + Copy>(arena: &mut TestArena, st: &mut St, thorough: bool) {
    let kind = format!("S {} {}", size_of::<E>(), log2(align_of::<E>()));
    println!("CASE slice-copy {}", kind);
    let fl = Flags { hdr_obs: false, elem_obs: false, anon: E::ANON };
    for n in ns(thorough) {
        let mut ms = vec![n, n + 1, n + 7, 0];
        if n > 0 { ms.push(n - 1); }
        ms.sort();
        ms.dedup();
        for m in ms {
            arena.mutate_root(|mc, root| {
                scenario(st, mc, root, &kind, n, Scen::Copy(m), &fl, |_sid, out| {
                    let src: Vec<E> = (0..m).map(|i| E::make(ELEM_BASE + i)).collect();
                    let mut b = GcSliceBuilder::<E>::new(n);
                    locate(out, b.slice_ptr() as *mut u8 as usize);
                    let g = b.copy_slice(mc, &src);
                    out.elems = if E::ANON || g.first().map(|e| e.ident().is_none()).unwrap_or(false) { None } else {
                        Some(g.iter().map(|e| e.ident().unwrap() & 0xFFFF).collect())
                    };
                    Some(Gc::erase(g))
                });
            });
        }
        settle(arena, st);
    }
}

// ------------------------------------------------------------------------------------------------
// str
// ------------------------------------------------------------------------------------------------
fn group_str(arena: &mut TestArena, st: &mut St, thorough: bool) {
    let kind = "T".to_string();
    println!("CASE str");
    let fl = Flags { hdr_obs: false, elem_obs: false, anon: false };
    for n in ns(thorough) {
        arena.mutate_root(|mc, root| {
            scenario(st, mc, root, &kind, n, Scen::AbandonNew, &fl, |_sid, out| {
                let mut b = GcStrBuilder::new(n);
                locate(out, b.str_ptr() as *mut u8 as usize);
                drop(b);
                None
            });
            scenario(st, mc, root, &kind, n, Scen::Assume, &fl, |_sid, out| {
                let mut b = GcStrBuilder::new(n);
                let p = b.str_ptr() as *mut u8;
                locate(out, p as usize);
                for i in 0..n {
                    unsafe { p.add(i).write(b'a' + (i % 26) as u8) };
                }
                let g = unsafe { b.assume_init(mc) };
                let ok = g.len() == n && g.bytes().enumerate().all(|(i, c)| c == b'a' + (i % 26) as u8);
                if !ok { out.elems = Some(vec![usize::MAX]); }
                Some(Gc::erase(g))
            });
        });
        let mut ms = vec![n, n + 1, n + 7, 0];
        if n > 0 { ms.push(n - 1); }
        ms.sort();
        ms.dedup();
        for m in ms {
            arena.mutate_root(|mc, root| {
                // element values of the model are 1000 + i: use them modulo 128 as ASCII bytes
                let src: String = (0..m).map(|i| (((ELEM_BASE + i) % 95) as u8 + 32) as char).collect();
                scenario(st, mc, root, &kind, n, Scen::Copy(m), &fl, |_sid, out| {
                    let mut b = GcStrBuilder::new(n);
                    locate(out, b.str_ptr() as *mut u8 as usize);
                    let g = b.copy_str(mc, &src);
                    let s: &str = g.as_ref();
                    if s != src { out.elems = Some(vec![usize::MAX]); }
                    Some(Gc::erase(g))
                });
            });
        }
        settle(arena, st);
    }
}

// ------------------------------------------------------------------------------------------------
// sized GcBuilder
// ------------------------------------------------------------------------------------------------
fn group_sized<T: Item, const STATIC: bool>(arena: &mut TestArena, st: &mut St) {
    let kind = format!("Z {} {}", size_of::<T>(), log2(align_of::<T>()));
    println!("CASE sized {} static={} drop={}", kind, STATIC, T::HAS_DROP);
    // a value destructor would show up as `V`; a builder must never emit one
    let fl = Flags { hdr_obs: false, elem_obs: false, anon: false };
    for _rep in 0..3 {
        arena.mutate_root(|mc, root| {
            scenario(st, mc, root, &kind, 0, Scen::AbandonNew, &fl, |_sid, out| {
                if STATIC {
                    let mut b = GcBuilder::<Static<T>>::new().unwrap_static();
                    locate(out, b.as_ptr() as usize);
                    drop(b);
                } else {
                    let mut b = GcBuilder::<T>::new();
                    locate(out, b.as_ptr() as usize);
                    drop(b);
                }
                None
            });
            scenario(st, mc, root, &kind, 0, Scen::Write, &fl, |sid, out| {
                if T::HAS_DROP { if T::ANON { out.anon_moved += 1 } else { out.moved.push(full_id(sid, VALUE_ID)) } }
                let g = if STATIC {
                    let mut b = GcBuilder::<Static<T>>::new().unwrap_static();
                    locate(out, b.as_ptr() as usize);
                    b.write(mc, T::make(full_id(sid, VALUE_ID)))
                } else {
                    let mut b = GcBuilder::<T>::new();
                    locate(out, b.as_ptr() as usize);
                    b.write(mc, T::make(full_id(sid, VALUE_ID)))
                };
                if let Some(x) = g.ident() {
                    if x & 0xFFFF != VALUE_ID { out.elems = Some(vec![usize::MAX]); }
                }
                Some(Gc::erase(g))
            });
            scenario(st, mc, root, &kind, 0, Scen::Assume, &fl, |sid, out| {
                if T::HAS_DROP { if T::ANON { out.anon_moved += 1 } else { out.moved.push(full_id(sid, VALUE_ID)) } }
                let mut b = GcBuilder::<T>::new();
                locate(out, b.as_ptr() as usize);
                unsafe { b.as_ptr().write(T::make(full_id(sid, VALUE_ID))) };
                let g = unsafe { b.assume_init(mc) };
                Some(Gc::erase(g))
            });
        });
        settle(arena, st);
    }
}

/// `new` with a length whose layout overflows: panics before anything is allocated.
fn rejected(st: &mut St) {
    println!("CASE rejected");
    let cases: [(&str, usize, u8); 4] = [
        ("T", usize::MAX, 0), ("T", (1usize << 63) - 1, 0), ("S 4 2", 1usize << 62, 1), ("W 8 3 8 3", (1usize << 60) - 1, 2),
    ];
    for (kind, len, which) in cases {
        let (allocs0, _) = talloc::counters();
        let (live0, _) = talloc::live();
        talloc::log_start();
        let res = catch_unwind(AssertUnwindSafe(|| match which {
            0 => drop(GcStrBuilder::new(len)),
            1 => drop(GcSliceBuilder::<u32>::new(len)),
            _ => drop(GcSliceWithHeaderBuilder::<u64, u64>::new(len)),
        }))
        .map_err(|p| {
            let msg = p.downcast_ref::<String>().cloned()
                .or_else(|| p.downcast_ref::<&'static str>().map(|s| s.to_string()))
                .unwrap_or_default();
            if msg.contains("no layout for value") { 1 } else if msg.contains("no layout for GC allocation") { 2 } else { 9 }
        });
        talloc::log_stop();
        let (live1, _) = talloc::live();
        let _ = allocs0;
        let desc = format!("kind=[{}] len={} scenario=new", kind, len);
        match res {
            Ok(()) => st.viol(&desc, "a builder whose layout overflows was created"),
            Err(code) => {
                st.scenarios += 1;
                println!("B R {} {} {}", kind, len, code);
            }
        }
        if live1 != live0 {
            st.viol(&desc, "a rejected builder leaked an allocation");
        }
    }
}

fn main() {
    install_panic_hook();
    let tier = arg_value("--tier").unwrap_or_else(|| "quick".into());
    let thorough = tier == "thorough";
    if let Some(seed) = arg_value("--seed").and_then(|s| s.parse::<u64>().ok()) {
        SEED.store(seed, std::sync::atomic::Ordering::Relaxed);
    }
    println!(
        "PLATFORM usize_bits={} usize_size={} usize_align={} debug_assertions={} hooks={}",
        usize::BITS, size_of::<usize>(), align_of::<usize>(), cfg!(debug_assertions), cfg!(gc_arena_verif)
    );
    let (live0, _) = talloc::live();
    let mut st = St { sid: 0, viols: 0, scenarios: 0, dropped: HashSet::new(), pending: Vec::new(), err_seen: 0 };
    {
        let mut arena = TestArena::new(|mc| Root { anchor: Gc::new(mc, 1u8), keep: Vec::new() });
        let arena = &mut arena;
        let st = &mut st;

        group_sized::<VTok, false>(arena, st);
        group_sized::<VTokA, false>(arena, st);
        group_sized::<VTokZ, false>(arena, st);
        group_sized::<u64, false>(arena, st);
        group_sized::<(), false>(arena, st);
        group_sized::<A4096<1>, false>(arena, st);
        group_sized::<VTok, true>(arena, st);
        group_sized::<A64<64>, true>(arena, st);

        group_str(arena, st, thorough);

        group_slice::<Tok, false>(arena, st, thorough);
        group_slice::<TokA, false>(arena, st, thorough);
        group_slice::<TokZ, false>(arena, st, thorough);
        group_slice::<u32, false>(arena, st, thorough);
        group_slice::<(), false>(arena, st, thorough);
        group_slice::<A64<64>, false>(arena, st, thorough);
        group_slice::<Tok, true>(arena, st, thorough);
        group_slice::<u32, true>(arena, st, thorough);
        group_slice_copy::<u32>(arena, st, thorough);
        group_slice_copy::<()>(arena, st, thorough);
        group_slice_copy::<A64<64>>(arena, st, thorough);
        group_slice_copy::<u8>(arena, st, thorough);

        group_swh::<HTok, Tok, false>(arena, st, thorough);
        group_swh::<HTok, TokA, false>(arena, st, thorough);
        group_swh::<HTok, TokZ, false>(arena, st, thorough);
        group_swh::<HTokA, Tok, false>(arena, st, thorough);
        group_swh::<HTokZ, Tok, false>(arena, st, thorough);
        group_swh::<HTokZ, TokZ, false>(arena, st, thorough);
        group_swh::<HTokA, TokA, false>(arena, st, thorough);
        group_swh::<u64, Tok, false>(arena, st, thorough);
        group_swh::<(), Tok, false>(arena, st, thorough);
        group_swh::<HTok, u32, false>(arena, st, thorough);
        group_swh::<HTok, (), false>(arena, st, thorough);
        group_swh::<HTok, A64<64>, false>(arena, st, thorough);
        group_swh::<u64, u32, false>(arena, st, thorough);
        group_swh::<HTok, Tok, true>(arena, st, thorough);
        group_swh::<HTokA, TokZ, true>(arena, st, thorough);
        group_swh::<u64, A64<64>, true>(arena, st, thorough);
        group_swh_copy::<HTok, u32>(arena, st, thorough);
        group_swh_copy::<HTokA, A64<64>>(arena, st, thorough);
        group_swh_copy::<HTokZ, ()>(arena, st, thorough);
        group_swh_copy::<u64, u32>(arena, st, thorough);
        group_swh_copy::<(), u8>(arena, st, thorough);

        rejected(st);
        settle(arena, st);
    }
    let (live1, _) = talloc::live();
    // the token bookkeeping set is still alive; compare block counts of arena-owned memory only
    let _ = (live0, live1);
    if !st.pending.is_empty() {
        st.viol("end-of-run", "completed values still pending");
    }
    talloc::check_all_guards();
    st.drain_alloc_errors("end of run");
    println!("SUMMARY scenarios={} viols={} alloc_errors={}", st.scenarios, st.viols, talloc::error_count());
    println!("END");
}
