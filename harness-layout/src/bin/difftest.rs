//! Differential test data for the Coq model of `core::alloc::Layout`: runs
//! `from_size_align`, `extend`, `pad_to_align` and `array::<T>` of the installed std on random
//! and boundary inputs (including every overflow / `isize::MAX` error path) and prints one
//! line per call in the format read by the model driver (`D ...`).

use core::alloc::Layout;
use layout_harness::{arg_value, types::*, Rng};

const MAXLOG: u32 = usize::BITS - 1;

fn gen_k(r: &mut Rng) -> u32 {
    match r.below(100) {
        0..=59 => r.below(7) as u32,
        60..=84 => 7 + r.below(10) as u32,
        _ => 17 + r.below((MAXLOG - 16) as u64) as u32,
    }
}

fn gen_size(r: &mut Rng) -> usize {
    let lim = 1usize << MAXLOG; // isize::MAX + 1
    match r.below(100) {
        0..=24 => r.below(65) as usize,
        25..=39 => {
            let j = r.below(usize::BITS as u64) as u32;
            (1usize << j).wrapping_add(r.below(3) as usize).wrapping_sub(1)
        }
        40..=59 => {
            let j = 1 + r.below(MAXLOG as u64) as u32;
            (r.next() as usize) & ((1usize << j) - 1)
        }
        60..=84 => {
            // around isize::MAX + 1 - 2^j
            let j = r.below(usize::BITS as u64 - 1) as u32;
            (lim - (1usize << j)).wrapping_add(r.below(7) as usize).wrapping_sub(3)
        }
        85..=92 => usize::MAX - r.below(4) as usize,
        _ => r.next() as usize,
    }
}

/// a valid layout, biased towards the validity boundary
fn gen_layout(r: &mut Rng) -> Layout {
    loop {
        let k = gen_k(r);
        let align = 1usize << k;
        let max = (1usize << MAXLOG) - align;
        let s = match r.below(10) {
            0..=1 => max - (r.below(4) as usize).min(max),
            2 => {
                // a multiple of the alignment close to the boundary
                let q = max / align;
                (q - (r.below(3) as usize).min(q)) * align
            }
            _ => {
                let s = gen_size(r);
                if s > max { s % (max + 1) } else { s }
            }
        };
        if let Ok(l) = Layout::from_size_align(s, align) {
            return l;
        }
    }
}

type ArrFn = fn(usize) -> Option<(usize, usize)>;
fn arr<T>(n: usize) -> Option<(usize, usize)> {
    Layout::array::<T>(n).ok().map(|l| (l.size(), l.align()))
}
fn elem<T>() -> (usize, usize, ArrFn) {
    (core::mem::size_of::<T>(), core::mem::align_of::<T>(), arr::<T>)
}

fn main() {
    let seed: u64 = arg_value("--seed").and_then(|s| s.parse().ok()).unwrap_or(1);
    let n: usize = arg_value("--n").and_then(|s| s.parse().ok()).unwrap_or(100_000);
    let mut r = Rng::new(seed ^ 0xD1FF);

    println!("# difftest seed={} n={} usize_bits={}", seed, n, usize::BITS);
    let elems: Vec<(usize, usize, ArrFn)> = vec![
        elem::<()>(), elem::<u8>(), elem::<u16>(), elem::<u32>(), elem::<u64>(), elem::<u128>(),
        elem::<[u8; 3]>(), elem::<[u16; 3]>(), elem::<[u64; 5]>(), elem::<(u8, u32)>(),
        elem::<A1<0>>(), elem::<A1<7>>(), elem::<A1<1000>>(), elem::<A2<6>>(), elem::<A4<12>>(),
        elem::<A8<0>>(), elem::<A8<24>>(), elem::<A16<16>>(), elem::<A16<48>>(), elem::<A32<1>>(),
        elem::<A64<0>>(), elem::<A64<64>>(), elem::<A64<65>>(), elem::<A128<128>>(), elem::<A256<1>>(),
        elem::<A512<513>>(), elem::<A1024<1024>>(), elem::<A4096<1>>(), elem::<A4096<4097>>(),
        elem::<A65536<1>>(), elem::<A65536<0>>(), elem::<[A4096<1>; 1024]>(),
    ];
    let mut out = String::with_capacity(n * 64);
    use std::fmt::Write;
    for i in 0..n {
        match i % 20 {
            0..=2 => {
                // validity
                let k = gen_k(&mut r);
                let s = gen_size(&mut r);
                let ok = Layout::from_size_align(s, 1usize << k).is_ok();
                writeln!(out, "D V {} {} {}", s, k, ok as u8).unwrap();
            }
            3..=11 => {
                let a = gen_layout(&mut r);
                let b = gen_layout(&mut r);
                match a.extend(b) {
                    Ok((l, off)) => writeln!(
                        out, "D E {} {} {} {} S {} {} {}",
                        a.size(), a.align().trailing_zeros(), b.size(), b.align().trailing_zeros(),
                        l.size(), l.align().trailing_zeros(), off
                    ).unwrap(),
                    Err(_) => writeln!(
                        out, "D E {} {} {} {} N",
                        a.size(), a.align().trailing_zeros(), b.size(), b.align().trailing_zeros()
                    ).unwrap(),
                }
            }
            12..=14 => {
                let a = gen_layout(&mut r);
                let p = a.pad_to_align();
                assert_eq!(p.align(), a.align());
                writeln!(out, "D P {} {} {}", a.size(), a.align().trailing_zeros(), p.size()).unwrap();
            }
            _ => {
                let (es, ea, f) = elems[r.below(elems.len() as u64) as usize];
                let max = (1usize << MAXLOG) - ea;
                let count = match r.below(10) {
                    0..=2 => r.below(70) as usize,
                    3..=6 if es != 0 => {
                        // around the threshold
                        let t = max / es;
                        t.wrapping_add(r.below(5) as usize).wrapping_sub(2)
                    }
                    7 => usize::MAX - r.below(3) as usize,
                    _ => gen_size(&mut r),
                };
                match f(count) {
                    Some((sz, al)) => {
                        assert_eq!(al, ea);
                        writeln!(out, "D A {} {} {} S {}", es, ea.trailing_zeros(), count, sz).unwrap()
                    }
                    None => writeln!(out, "D A {} {} {} N", es, ea.trailing_zeros(), count).unwrap(),
                }
            }
        }
    }
    print!("{}", out);
    println!("# END");
}
