//! Twin of the flag-bit code of `src/gc_ptr.rs`.
//!
//! `gen/tag_slice.rs` is cut out of /repo's current `src/gc_ptr.rs` (`GcHeader`, `impl GcHeader`,
//! `GcVtable`, `mod tagged_ptr`) and `src/types.rs` (`GcColor`) by scripts on every run and
//! compiled here unchanged between small stubs for `GcPtr` and `Context`.  The driver
//!   * prints the platform constants the Coq model is instantiated with,
//!   * runs random histories of `set_color` / `set_needs_trace` / `set_live` on real headers and
//!     prints the raw tagged word and what the getters return (`T O ...` lines for the model),
//!     checking after every single operation against a plain record of the last values set
//!     (`VIOL` lines: model-independent oracle),
//!   * calls `tagged_ptr::{untag,get,set,get_bool,set_bool}` on arbitrary addresses and tags.

#![allow(dead_code, unused_imports, unused_macros, clippy::all)]

mod twin {
    use core::cell::Cell;
    use core::ptr::NonNull;

    pub struct Context;
    pub struct GcPtr<T: ?Sized = ()>(NonNull<T>);
    impl<T: ?Sized> Copy for GcPtr<T> {}
    impl<T: ?Sized> Clone for GcPtr<T> {
        fn clone(&self) -> Self {
            *self
        }
    }

    include!(concat!(env!("CARGO_MANIFEST_DIR"), "/gen/tag_slice.rs"));

    unsafe fn tv(_: NonNull<()>, _: &mut Context) {}
    unsafe fn dv(_: NonNull<()>) {}

    const VT: GcVtable = GcVtable {
        trace_value: tv,
        drop_value: dv,
        dealloc: dv,
        type_metadata: NonNull::dangling(),
    };
    const VTS: &[GcVtable; 6] = &[VT, VT, VT, VT, VT, VT];

    fn color_code(c: GcColor) -> u8 {
        match c {
            GcColor::White => 0,
            GcColor::WhiteWeak => 1,
            GcColor::Gray => 2,
            GcColor::Black => 3,
        }
    }
    fn color_of(code: u8) -> GcColor {
        match code {
            0 => GcColor::White,
            1 => GcColor::WhiteWeak,
            2 => GcColor::Gray,
            _ => GcColor::Black,
        }
    }

    macro_rules! direct_masks {
        ($r:expr, $p:expr, $a:expr, $t:expr; $($m:literal),*) => { $(
            println!("T G {} {} {}", $m, $a, tagged_ptr::get::<$m, _>($p));
            println!("T S {} {} {} {}", $m, $a, $t, tagged_ptr::set::<$m, _>($p, $t) as usize);
        )* };
    }
    macro_rules! direct_bool_masks {
        ($p:expr, $a:expr, $v:expr; $($m:literal),*) => { $(
            println!("T GB {} {} {}", $m, $a, tagged_ptr::get_bool::<$m, _>($p) as u8);
            println!("T SB {} {} {} {}", $m, $a, $v as u8, tagged_ptr::set_bool::<$m, _>($p, $v) as usize);
        )* };
    }

    pub fn drive(seed: u64, n: usize) -> usize {
        let mut r = layout_harness::Rng::new(seed ^ 0x7A6);
        let mut viols = 0usize;
        println!(
            "PLATFORM usize_bits={} hdr_size={} hdr_align={} vtable_align={} vtable_size={}",
            usize::BITS,
            core::mem::size_of::<GcHeader>(),
            core::mem::align_of::<GcHeader>(),
            core::mem::align_of::<GcVtable>(),
            core::mem::size_of::<GcVtable>()
        );
        // histories on real headers
        for case in 0..n {
            let vt: &'static GcVtable = &VTS[r.below(VTS.len() as u64) as usize];
            let vt_addr = vt as *const GcVtable as usize;
            let h = GcHeader::new(vt);
            let nops = r.below(13) as usize;
            let mut ops = String::new();
            let (mut c, mut nt, mut live) = (0u8, false, false);
            let check = |h: &GcHeader, c: u8, nt: bool, live: bool, ops: &str, viols: &mut usize| {
                let oc = color_code(h.color());
                let ok = oc == c
                    && h.needs_trace() == nt
                    && h.is_live() == live
                    && (h.vtable() as *const GcVtable as usize) == vt_addr;
                if !ok {
                    *viols += 1;
                    println!(
                        "VIOL tag history case={} vtable={:#x} ops=[{}] :: read back color={} needs_trace={} live={} vtable={:#x}, last set color={} needs_trace={} live={}",
                        case, vt_addr, ops.trim(), oc, h.needs_trace(), h.is_live(),
                        h.vtable() as *const GcVtable as usize, c, nt, live
                    );
                }
            };
            check(&h, c, nt, live, &ops, &mut viols);
            for _ in 0..nops {
                match r.below(3) {
                    0 => {
                        c = r.below(4) as u8;
                        h.set_color(color_of(c));
                        ops.push_str(&format!("C {} ", c));
                    }
                    1 => {
                        nt = r.below(2) == 1;
                        h.set_needs_trace(nt);
                        ops.push_str(&format!("N {} ", nt as u8));
                    }
                    _ => {
                        live = r.below(2) == 1;
                        h.set_live(live);
                        ops.push_str(&format!("L {} ", live as u8));
                    }
                }
                check(&h, c, nt, live, &ops, &mut viols);
            }
            println!(
                "T O {} {} {}{} {} {} {}",
                vt_addr, nops, ops, h.tagged_vtable.get() as usize,
                color_code(h.color()), h.needs_trace() as u8, h.is_live() as u8
            );
        }
        // direct calls on arbitrary words (never dereferenced)
        for _ in 0..n {
            let a: usize = match r.below(4) {
                0 => (r.next() as usize) & !0xF,
                1 => r.below(64) as usize,
                2 => usize::MAX - r.below(32) as usize,
                _ => r.next() as usize,
            };
            let t: usize = match r.below(3) {
                0 => r.below(16) as usize,
                1 => r.next() as usize,
                _ => usize::MAX,
            };
            let v = r.below(2) == 1;
            let p = a as *const GcVtable;
            println!("T U {} {}", a, tagged_ptr::untag(p) as usize);
            direct_masks!(r, p, a, t; 1, 2, 3, 4, 5, 7, 8, 12, 15);
            direct_bool_masks!(p, a, v; 1, 2, 4, 8);
        }
        viols
    }
}

fn main() {
    let seed: u64 = layout_harness::arg_value("--seed").and_then(|s| s.parse().ok()).unwrap_or(1);
    let n: usize = layout_harness::arg_value("--n").and_then(|s| s.parse().ok()).unwrap_or(2000);
    let viols = twin::drive(seed, n);
    println!("SUMMARY viols={}", viols);
    println!("END");
}
