//! Shared parts of the C17 / C18 correspondence harness: a tracking global allocator that never
//! allocates itself, a global ordered event log (allocator calls + destructor tokens + panics),
//! a tiny deterministic RNG and the macro-generated grid of `#[repr(align(N))]` types.
//!
//! The harness only uses gc-arena's public API. It does not trust the crate's layout code for
//! its oracle: the block of a `Gc` value is identified as the live allocator block that contains
//! the value address.

pub mod talloc;
pub mod types;

/// splitmix64 — all randomness derives from the seed passed on the command line
pub struct Rng(pub u64);

impl Rng {
    pub fn new(seed: u64) -> Self {
        Rng(seed.wrapping_mul(0x9E37_79B9_7F4A_7C15).wrapping_add(0x1234_5678_9ABC_DEF1))
    }
    pub fn next(&mut self) -> u64 {
        self.0 = self.0.wrapping_add(0x9E37_79B9_7F4A_7C15);
        let mut z = self.0;
        z = (z ^ (z >> 30)).wrapping_mul(0xBF58_476D_1CE4_E5B9);
        z = (z ^ (z >> 27)).wrapping_mul(0x94D0_49BB_1331_11EB);
        z ^ (z >> 31)
    }
    pub fn below(&mut self, n: u64) -> u64 {
        if n == 0 { 0 } else { self.next() % n }
    }
    pub fn pick<T: Copy>(&mut self, xs: &[T]) -> T {
        xs[self.below(xs.len() as u64) as usize]
    }
}

pub fn log2(align: usize) -> u32 {
    assert!(align.is_power_of_two());
    align.trailing_zeros()
}

/// Parse `--seed N`, `--tier quick|thorough` style arguments.
pub fn arg_value(name: &str) -> Option<String> {
    let args: Vec<String> = std::env::args().collect();
    for i in 0..args.len() {
        if args[i] == name && i + 1 < args.len() {
            return Some(args[i + 1].clone());
        }
    }
    None
}

/// Silence panic messages and log a PANIC event (no allocation inside the hook).
pub fn install_panic_hook() {
    std::panic::set_hook(Box::new(|_| {
        talloc::log_event(talloc::EV_PANIC, 0, 0, 0);
    }));
}
