//! Tracking `#[global_allocator]`.
//!
//! * never allocates itself: live-block table, event log and error list are fixed-size statics;
//! * every block is surrounded by guard zones (checked on free and on demand);
//! * blocks are *minimally* aligned: the returned pointer is a multiple of the requested
//!   alignment but not of twice that alignment, so an under-requested alignment shows up as a
//!   misaligned value pointer deterministically instead of by luck;
//! * `dealloc` of an unknown pointer or with a layout different from the `alloc` layout is
//!   recorded as an error and NOT forwarded to the system allocator (the harness goes on and
//!   reports it);
//! * an ordered event log shared with the destructor tokens of the harness.

use std::alloc::{GlobalAlloc, Layout, System};
use std::cell::UnsafeCell;
use std::sync::atomic::{AtomicBool, Ordering};

pub const EV_ALLOC: u8 = 1; // a = ptr, b = size, c = align
pub const EV_FREE: u8 = 2; // a = ptr, b = size, c = align
pub const EV_PANIC: u8 = 3;
pub const EV_DROP_HDR: u8 = 4; // a = token id
pub const EV_DROP_ELEM: u8 = 5; // a = token id
pub const EV_TRACE: u8 = 6; // a = token id
pub const EV_DROP_VALUE: u8 = 7; // a = token id
pub const EV_MARK: u8 = 8; // harness marker

#[derive(Clone, Copy, Debug)]
pub struct Event {
    pub kind: u8,
    pub a: usize,
    pub b: usize,
    pub c: usize,
}

#[derive(Clone, Copy, Debug)]
pub struct Block {
    pub user: usize,
    pub size: usize,
    pub align: usize,
    pub seq: usize,
}

pub const ERR_UNKNOWN_FREE: u8 = 1; // a = ptr, b = size, c = align
pub const ERR_LAYOUT_MISMATCH: u8 = 2; // a = ptr, b,c = alloc size/align, d,e = free size/align
pub const ERR_GUARD: u8 = 3; // a = ptr, b = size, c = align, d = 0 front / 1 back, e = first bad offset
pub const ERR_TABLE_FULL: u8 = 4;
pub const ERR_LOG_FULL: u8 = 5;

#[derive(Clone, Copy, Debug)]
pub struct ErrRec {
    pub kind: u8,
    pub a: usize,
    pub b: usize,
    pub c: usize,
    pub d: usize,
    pub e: usize,
}

#[derive(Clone, Copy)]
struct Slot {
    user: usize, // 0 = empty, 1 = tombstone
    size: usize,
    align: usize,
    real: usize,
    real_size: usize,
    real_align: usize,
    guard: usize,
    seq: usize,
}

const EMPTY: Slot = Slot { user: 0, size: 0, align: 0, real: 0, real_size: 0, real_align: 0, guard: 0, seq: 0 };
const CAP: usize = 1 << 16;
const LOG_CAP: usize = 1 << 18;
const ERR_CAP: usize = 256;
const GUARD_BYTE: u8 = 0xFD;
const FRESH_BYTE: u8 = 0xCD;

struct Global {
    table: [Slot; CAP],
    log: [Event; LOG_CAP],
    nlog: usize,
    log_on: bool,
    errs: [ErrRec; ERR_CAP],
    nerr: usize,
    live: usize,
    live_bytes: usize,
    seq: usize,
    allocs: usize,
    frees: usize,
}

struct Shared(UnsafeCell<Global>);
unsafe impl Sync for Shared {}

static G: Shared = Shared(UnsafeCell::new(Global {
    table: [EMPTY; CAP],
    log: [Event { kind: 0, a: 0, b: 0, c: 0 }; LOG_CAP],
    nlog: 0,
    log_on: false,
    errs: [ErrRec { kind: 0, a: 0, b: 0, c: 0, d: 0, e: 0 }; ERR_CAP],
    nerr: 0,
    live: 0,
    live_bytes: 0,
    seq: 0,
    allocs: 0,
    frees: 0,
}));
static LOCK: AtomicBool = AtomicBool::new(false);

struct Guard;
impl Guard {
    fn take() -> Guard {
        while LOCK.compare_exchange_weak(false, true, Ordering::Acquire, Ordering::Relaxed).is_err() {
            std::hint::spin_loop();
        }
        Guard
    }
}
impl Drop for Guard {
    fn drop(&mut self) {
        LOCK.store(false, Ordering::Release);
    }
}

#[allow(clippy::mut_from_ref)]
fn g() -> &'static mut Global {
    unsafe { &mut *G.0.get() }
}

fn hash(p: usize) -> usize {
    ((p >> 3).wrapping_mul(0x9E37_79B9_7F4A_7C15usize) >> 20) & (CAP - 1)
}

fn push_err(gl: &mut Global, e: ErrRec) {
    if gl.nerr < ERR_CAP {
        gl.errs[gl.nerr] = e;
    }
    gl.nerr += 1;
}

fn push_event(gl: &mut Global, ev: Event) {
    if !gl.log_on {
        return;
    }
    if gl.nlog < LOG_CAP {
        gl.log[gl.nlog] = ev;
        gl.nlog += 1;
    } else {
        push_err(gl, ErrRec { kind: ERR_LOG_FULL, a: 0, b: 0, c: 0, d: 0, e: 0 });
    }
}

/// smallest odd multiple of `align` that is >= 32
fn guard_len(align: usize) -> usize {
    let mut k = 32usize.div_ceil(align);
    if k % 2 == 0 {
        k += 1;
    }
    k * align
}

unsafe fn check_guards(gl: &mut Global, s: &Slot) {
    unsafe {
        let front = s.real as *const u8;
        for i in 0..s.guard {
            if *front.add(i) != GUARD_BYTE {
                push_err(gl, ErrRec { kind: ERR_GUARD, a: s.user, b: s.size, c: s.align, d: 0, e: i });
                break;
            }
        }
        let back = (s.user + s.size) as *const u8;
        for i in 0..s.guard {
            if *back.add(i) != GUARD_BYTE {
                push_err(gl, ErrRec { kind: ERR_GUARD, a: s.user, b: s.size, c: s.align, d: 1, e: i });
                break;
            }
        }
    }
}

pub struct Tracking;

unsafe impl GlobalAlloc for Tracking {
    unsafe fn alloc(&self, layout: Layout) -> *mut u8 {
        let size = layout.size();
        let align = layout.align();
        let guard = guard_len(align);
        let Some(real_align) = align.checked_mul(2) else { return std::ptr::null_mut() };
        let Some(real_size) = size.checked_add(2 * guard) else { return std::ptr::null_mut() };
        let Ok(real_layout) = Layout::from_size_align(real_size, real_align) else {
            return std::ptr::null_mut();
        };
        let real = unsafe { System.alloc(real_layout) };
        if real.is_null() {
            return real;
        }
        let user = unsafe { real.add(guard) };
        unsafe {
            std::ptr::write_bytes(real, GUARD_BYTE, guard);
            std::ptr::write_bytes(user, FRESH_BYTE, size);
            std::ptr::write_bytes(user.add(size), GUARD_BYTE, guard);
        }
        let _l = Guard::take();
        let gl = g();
        gl.seq += 1;
        gl.allocs += 1;
        let slot = Slot {
            user: user as usize,
            size,
            align,
            real: real as usize,
            real_size,
            real_align,
            guard,
            seq: gl.seq,
        };
        let mut i = hash(user as usize);
        let mut placed = false;
        for _ in 0..CAP {
            if gl.table[i].user <= 1 {
                gl.table[i] = slot;
                placed = true;
                break;
            }
            i = (i + 1) & (CAP - 1);
        }
        if !placed {
            push_err(gl, ErrRec { kind: ERR_TABLE_FULL, a: user as usize, b: size, c: align, d: 0, e: 0 });
        } else {
            gl.live += 1;
            gl.live_bytes += size;
        }
        push_event(gl, Event { kind: EV_ALLOC, a: user as usize, b: size, c: align });
        user
    }

    unsafe fn dealloc(&self, ptr: *mut u8, layout: Layout) {
        let p = ptr as usize;
        let found;
        {
            let _l = Guard::take();
            let gl = g();
            gl.frees += 1;
            push_event(gl, Event { kind: EV_FREE, a: p, b: layout.size(), c: layout.align() });
            let mut i = hash(p);
            let mut hit = None;
            for _ in 0..CAP {
                let u = gl.table[i].user;
                if u == 0 {
                    break;
                }
                if u == p {
                    hit = Some(i);
                    break;
                }
                i = (i + 1) & (CAP - 1);
            }
            match hit {
                None => {
                    push_err(gl, ErrRec {
                        kind: ERR_UNKNOWN_FREE, a: p, b: layout.size(), c: layout.align(), d: 0, e: 0,
                    });
                    found = None;
                }
                Some(i) => {
                    let s = gl.table[i];
                    if s.size != layout.size() || s.align != layout.align() {
                        push_err(gl, ErrRec {
                            kind: ERR_LAYOUT_MISMATCH, a: p, b: s.size, c: s.align,
                            d: layout.size(), e: layout.align(),
                        });
                    }
                    unsafe { check_guards(gl, &s) };
                    gl.table[i].user = 1;
                    gl.live -= 1;
                    gl.live_bytes -= s.size;
                    found = Some(s);
                }
            }
        }
        if let Some(s) = found {
            unsafe {
                System.dealloc(
                    s.real as *mut u8,
                    Layout::from_size_align_unchecked(s.real_size, s.real_align),
                );
            }
        }
    }
}

#[global_allocator]
static ALLOCATOR: Tracking = Tracking;

// ---------------------------------------------------------------------------------------------
// API for the harness (outside the allocator)
// ---------------------------------------------------------------------------------------------

pub fn log_start() {
    let _l = Guard::take();
    let gl = g();
    gl.nlog = 0;
    gl.log_on = true;
}

pub fn log_stop() {
    let _l = Guard::take();
    g().log_on = false;
}

pub fn log_len() -> usize {
    let _l = Guard::take();
    g().nlog
}

pub fn log_get(i: usize) -> Event {
    let _l = Guard::take();
    g().log[i]
}

pub fn log_event(kind: u8, a: usize, b: usize, c: usize) {
    let _l = Guard::take();
    push_event(g(), Event { kind, a, b, c });
}

/// Copy of the log (call with the log stopped).
pub fn log_take() -> Vec<Event> {
    let n = log_len();
    let mut v = Vec::with_capacity(n);
    for i in 0..n {
        v.push(log_get(i));
    }
    v
}

/// All live blocks `b` with `b.user <= addr <= b.user + b.size` (inclusive end: a zero-sized
/// value sits at the very end of its block; guard zones keep blocks from touching).
pub fn blocks_containing(addr: usize) -> (Option<Block>, usize) {
    let _l = Guard::take();
    let gl = g();
    let mut first = None;
    let mut n = 0;
    for s in gl.table.iter() {
        if s.user > 1 && s.user <= addr && addr <= s.user + s.size {
            if first.is_none() {
                first = Some(Block { user: s.user, size: s.size, align: s.align, seq: s.seq });
            }
            n += 1;
        }
    }
    (first, n)
}

pub fn live() -> (usize, usize) {
    let _l = Guard::take();
    let gl = g();
    (gl.live, gl.live_bytes)
}

pub fn counters() -> (usize, usize) {
    let _l = Guard::take();
    let gl = g();
    (gl.allocs, gl.frees)
}

/// Check the guard zones of every live block (errors are appended to the error list).
pub fn check_all_guards() {
    let _l = Guard::take();
    let gl = g();
    for i in 0..CAP {
        let s = gl.table[i];
        if s.user > 1 {
            unsafe { check_guards(gl, &s) };
        }
    }
}

pub fn error_count() -> usize {
    let _l = Guard::take();
    g().nerr
}

pub fn error_get(i: usize) -> ErrRec {
    let _l = Guard::take();
    g().errs[i.min(ERR_CAP - 1)]
}

/// Describe errors `from..` and return how many there were.
pub fn describe_errors(from: usize) -> Vec<String> {
    let n = error_count();
    let mut out = Vec::new();
    for i in from..n.min(ERR_CAP) {
        let e = error_get(i);
        out.push(match e.kind {
            ERR_UNKNOWN_FREE => format!(
                "dealloc of a pointer that is not a live block (double free or wrong base): ptr={:#x} layout=({},{})",
                e.a, e.b, e.c
            ),
            ERR_LAYOUT_MISMATCH => format!(
                "dealloc layout differs from alloc layout: ptr={:#x} alloc=({},{}) dealloc=({},{})",
                e.a, e.b, e.c, e.d, e.e
            ),
            ERR_GUARD => format!(
                "write outside the block: block=({},{}) {} guard corrupted at offset {}",
                e.b, e.c, if e.d == 0 { "front" } else { "back" }, e.e
            ),
            ERR_TABLE_FULL => "harness: live-block table full".to_string(),
            ERR_LOG_FULL => "harness: event log full".to_string(),
            _ => format!("unknown error record {:?}", e),
        });
    }
    out
}
