//! Macro-generated `#[repr(align(N))]` plain-data types: `A<N><S>` holds `S` payload bytes, so
//! `size_of = round_up(S, N)` (0 for `S = 0`) and `align_of = N`.  All are `Copy`, have no
//! destructor, no validity invariant, and a trivial `Collect` impl.

use gc_arena::Collect;

macro_rules! aligned_types {
    ($($name:ident = $n:literal),* $(,)?) => {
        $(
            #[repr(align($n))]
            #[derive(Clone, Copy)]
            pub struct $name<const S: usize>(pub [u8; S]);

            unsafe impl<'gc, const S: usize> Collect<'gc> for $name<S> {
                const NEEDS_TRACE: bool = false;
            }
        )*
    };
}

aligned_types!(
    A1 = 1, A2 = 2, A4 = 4, A8 = 8, A16 = 16, A32 = 32, A64 = 64, A128 = 128, A256 = 256,
    A512 = 512, A1024 = 1024, A4096 = 4096, A65536 = 65536,
);

/// deterministic byte pattern for byte `j` of object number `obj`
#[inline]
pub fn pat(obj: usize, j: usize) -> u8 {
    (obj.wrapping_mul(131).wrapping_add(j.wrapping_mul(7)).wrapping_add(j >> 8).wrapping_add(13)) as u8
}

/// # Safety
/// `p .. p+n` must be writable.
pub unsafe fn fill(p: *mut u8, n: usize, obj: usize) {
    for j in 0..n {
        unsafe { p.add(j).write(pat(obj, j)) };
    }
}

/// # Safety
/// `p .. p+n` must be readable and initialised.
pub unsafe fn first_mismatch(p: *const u8, n: usize, obj: usize) -> Option<usize> {
    for j in 0..n {
        if unsafe { p.add(j).read() } != pat(obj, j) {
            return Some(j);
        }
    }
    None
}
