#!/usr/bin/env python3
"""Self-test of the C17 / C18 checks: apply one realistic mutation at a time to a scratch copy of
/repo (created under /verif/.build and deleted afterwards), run both checks (quick tier) on it
through VERIF_REPO and print the verdicts.

  python3 selftest_mutations.py            # all mutations (about 45 min, rebuilds per mutation)
  PIDS=C18 python3 selftest_mutations.py M4 M9
"""
import os, subprocess, sys, shutil, json, time
S = "/verif/.build/scratch-layout"
ORIG = os.environ.get("VERIF_REPO", "/repo")
MUTS = [
 ("M1 dealloc passes alloc_layout with alignment 8 instead of the block alignment", "src/gc_ptr.rs",
  "alloc::dealloc(alloc_ptr as *mut u8, alloc_layout);",
  "alloc::dealloc(alloc_ptr as *mut u8, Layout::from_size_align_unchecked(alloc_layout.size(), 8));"),
 ("M2 dealloc recomputes the block base with META_HEADER_LAYOUT.size() instead of value_offset", "src/gc_ptr.rs",
  "let alloc_ptr = value_ptr.byte_sub(value_offset).as_ptr();",
  "let _ = value_offset; let alloc_ptr = value_ptr.byte_sub(PtrProps::<T, TM::TypeMetadata, P>::META_HEADER_LAYOUT.size()).as_ptr();"),
 ("M3 pad_to_align dropped from SliceWithHeader::layout", "src/slice.rs",
  "Some(header_layout.extend(array_layout).ok()?.0.pad_to_align())",
  "Some(header_layout.extend(array_layout).ok()?.0)"),
 ("M4 write_slice_with: init_length = i instead of i + 1", "src/slice.rs",
  "self.init_length = i + 1;", "self.init_length = i;"),
 ("M5 impl Drop for GcBuilder does not deallocate", "src/gc.rs",
  "        unsafe {\n            self.ptr.dealloc();\n        }\n", "        let _ = &self.ptr;\n"),
 ("M6 GcBuilder::assume_init forgets set_live(true)", "src/gc.rs",
  "        ptr.header().set_live(true);\n", ""),
 ("M7 live flag uses mask 0x4 (aliases needs_trace) in is_live and set_live", "src/gc_ptr.rs",
  None, None),
 ("M8 META_HEADER_LAYOUT without pad_to_align", "src/gc_ptr.rs",
  "            layout.pad_to_align()\n", "            layout\n"),
 ("M9 slice builder Drop skips the header (drops only the elements)", "src/slice.rs",
  "            let ptr = SliceWithHeader::<H, E>::ptr_from_thin(ptr, self.init_length);\n            core::ptr::drop_in_place(ptr.cast_mut());\n",
  "            let ptr = SliceWithHeader::<H, E>::ptr_from_thin(ptr, self.init_length);\n            core::ptr::drop_in_place(&raw mut (*ptr.cast_mut()).slice);\n"),
 ("M10 copy_slice copies before checking the length (assert moved after the copy, copies min length)", "src/slice.rs",
  None, None),
 ("H1 harmless: debug_asserts removed from prefix_header_layout", "src/gc_ptr.rs",
  None, None),
]
def apply(name, rel, old, new):
    p = os.path.join(S, rel)
    s = open(p).read()
    if name.startswith("M7"):
        a = s.replace("tagged_ptr::get_bool::<0x8, _>", "tagged_ptr::get_bool::<0x4, _>").replace("tagged_ptr::set_bool::<0x8, _>", "tagged_ptr::set_bool::<0x4, _>")
    elif name.startswith("M10"):
        old = '''        assert!(elements.len() == len, "`elements` is not length {len}");
        unsafe {
            ptr::copy_nonoverlapping(
                elements.as_ptr(),
                self.slice_ptr() as *mut E,
                elements.len(),
            );
            self.assume_init(mc)
        }'''
        new = '''        unsafe {
            ptr::copy_nonoverlapping(
                elements.as_ptr(),
                self.slice_ptr() as *mut E,
                elements.len().min(len),
            );
            if elements.len() != len {
                mem::forget(self);
                panic!("`elements` is not length {len}");
            }
            self.assume_init(mc)
        }'''
        assert old in s
        a = s.replace(old, new)
    elif name.startswith("H1"):
        import re
        a = s.replace("            debug_assert!(value_offset.is_multiple_of(value_layout.align()));\n", "")
        a = a.replace("            debug_assert!(\n                (value_offset - header_layout.size()).is_multiple_of(header_layout.align())\n            );\n", "")
    else:
        assert old in s, (name, old)
        a = s.replace(old, new)
    assert a != s, name
    open(p, "w").write(a)
def restore(rel):
    shutil.copy(os.path.join(ORIG, rel), os.path.join(S, rel))
def run(pid):
    env = dict(os.environ, VERIF_REPO=S)
    t0 = time.time()
    p = subprocess.run(["python3", "/verif/scripts/check.py", pid, "--tier", "quick"], env=env, stdout=subprocess.PIPE, stderr=subprocess.PIPE, text=True)
    lines = [l for l in p.stdout.split("\n") if l.startswith(("VIOLATION", "OK ", "KNOWN"))]
    descs = []
    for l in lines:
        if "replay=" in l:
            f = l.split("replay=")[1].split()[0]
            try:
                descs.append(open(f).readline().strip()[:260])
            except OSError: pass
    broken = [l for l in p.stderr.split("\n") if "BROKEN" in l]
    return p.returncode, lines, descs, [b[:200] for b in broken], round(time.time()-t0)
PIDS = os.environ.get("PIDS", "C17,C18").split(",")
if os.path.exists(S):
    shutil.rmtree(S)
shutil.copytree(ORIG, S, ignore=shutil.ignore_patterns("target", ".git"))
sel = sys.argv[1:] or None
res = {}
for (name, rel, old, new) in MUTS:
    if sel and not any(name.startswith(x) for x in sel): continue
    apply(name, rel, old, new)
    try:
        out = {}
        for pid in PIDS:
            out[pid] = run(pid)
        res[name] = out
        print("=====", name, flush=True)
        for pid in PIDS:
            rc, lines, descs, broken, dt = out[pid]
            print("  %s rc=%d (%ss): %d VIOLATION lines, OK=%s" % (pid, rc, dt, sum(1 for l in lines if l.startswith("VIOLATION")), any(l.startswith("OK") for l in lines)), flush=True)
            for d in descs[:3]: print("      ", d, flush=True)
            for b in broken[:4]: print("      [stderr]", b, flush=True)
    finally:
        restore(rel)
shutil.rmtree(S, ignore_errors=True)
import hashlib, glob
key = hashlib.sha256(os.path.abspath(S).encode()).hexdigest()[:10]
for d in glob.glob("/verif/.build/layout-*%s*" % key):
    shutil.rmtree(d, ignore_errors=True)
