"""Shared machinery of the C17 / C18 checks (layout + builders).

Pieces
  * generated build crate (/verif/.build/layout-crate-<key>): Cargo.toml from Cargo.toml.in with
    vlib.REPO substituted, `src` symlinked to /verif/harness-layout/src, and gen/tag_slice.rs cut
    out of the repository's current src/gc_ptr.rs + src/types.rs (fail closed);
  * the Coq project /verif/coq-layout (full .vo build), its audit, the OCaml extraction
    (ExtrOcamlBasic only) + driver used for bulk evaluation of the model on observed cases, and
    an in-Coq `vm_compute` re-check of a sample of the same cases (generated-table theorem);
  * translation of the harness' case lines (driver syntax) into Coq terms.

Case line syntax (one case per line; shared by the Rust harness, the OCaml driver and here):
  D V s k r | D E s1 k1 s2 k2 (N | S size k off) | D P s k r | D A es ek n (N | S size)
  L custom ms mk KIND len (O asz ak off fsz fk foff vsz vk | P code)
       KIND: Z vs vk | S es ek | T | W hs hk es ek
  T O vt nops {C c|N b|L b}* raw col nt live | T U a r | T G m a r | T S m a t r
       | T GB m a r | T SB m a v r
  B C KIND len SCEN ho eo an nev {A s k|P|H|E i|V|F s k|K}* dcount ddebt linked (-|h x) (-|e n x*)
       SCEN: AN | AH | PA j | CO | CP m | WR | AS
  B R KIND len code
"""
import fcntl, hashlib, os, re, shutil, sys, time

sys.path.insert(0, os.path.join(os.path.dirname(os.path.abspath(__file__)), "..", "scripts"))
import vlib

HARNESS = os.path.dirname(os.path.abspath(__file__))
COQ = os.path.join(vlib.VERIF, "coq-layout")
LOGICAL = "GALayout"
EXTRACT_DIR = os.path.join(vlib.BUILD, "layout-extract")
MODEL_BIN = os.path.join(EXTRACT_DIR, "layout_model")

SETUP_KEY = "layout(C17+C18)"


def _repo_key():
    return hashlib.sha256(os.path.abspath(vlib.REPO).encode()).hexdigest()[:10]


def crate_dir():
    return os.path.join(vlib.BUILD, "layout-crate-" + _repo_key())


def target_dir(thorough_grid):
    return os.path.join(vlib.BUILD, "layout-target-%s-%s" % (_repo_key(), "t" if thorough_grid else "q"))


class Lock:
    def __init__(self, name):
        os.makedirs(vlib.BUILD, exist_ok=True)
        self.path = os.path.join(vlib.BUILD, name + ".lock")

    def __enter__(self):
        self.f = open(self.path, "w")
        fcntl.flock(self.f, fcntl.LOCK_EX)
        return self

    def __exit__(self, *a):
        fcntl.flock(self.f, fcntl.LOCK_UN)
        self.f.close()


def write_if_changed(path, text):
    try:
        if open(path).read() == text:
            return False
    except OSError:
        pass
    os.makedirs(os.path.dirname(path), exist_ok=True)
    with open(path, "w") as f:
        f.write(text)
    return True


# --------------------------------------------------------------------------------------------
# slicing the flag-bit code out of the source (fail closed)
# --------------------------------------------------------------------------------------------
class SliceError(Exception):
    pass


def _item(src, header_re, what):
    m = re.search(header_re, src, re.M)
    if not m:
        raise SliceError("Unknown: cannot find %s (pattern %r)" % (what, header_re))
    start = m.start()
    # include directly preceding attribute / doc lines
    lines_before = src[:start].split("\n")
    k = len(lines_before) - 1  # index of the (empty) prefix of the header's own line
    j = k - 1
    while j >= 0 and re.match(r"\s*(#\[|///)", lines_before[j]):
        j -= 1
    start = len("\n".join(lines_before[: j + 1])) + (1 if j + 1 > 0 else 0)
    i = src.find("{", m.end() - 1)
    if i < 0:
        raise SliceError("Unknown: no body for %s" % what)
    depth, p = 0, i
    while p < len(src):
        c = src[p]
        if c == "{":
            depth += 1
        elif c == "}":
            depth -= 1
            if depth == 0:
                return src[start : p + 1]
        p += 1
    raise SliceError("Unknown: unbalanced braces in %s" % what)


def _num(s):
    return int(s, 16) if s.lower().startswith("0x") else int(s)


def slice_tag_source():
    """Return (rust_text, consts, problems). consts: vtable_align, color_mask, trace_mask,
    live_mask, color_codes. problems: list of 'Unknown ...' strings (fail closed)."""
    problems = []
    try:
        gp = open(os.path.join(vlib.REPO, "src", "gc_ptr.rs")).read()
        ty = open(os.path.join(vlib.REPO, "src", "types.rs")).read()
        parts = [
            _item(ty, r"^\s*pub\(crate\) enum GcColor\b", "enum GcColor"),
            _item(gp, r"^\s*pub\(crate\) struct GcHeader\b", "struct GcHeader"),
            _item(gp, r"^\s*impl GcHeader\b", "impl GcHeader"),
            _item(gp, r"^\s*struct GcVtable\b", "struct GcVtable"),
            _item(gp, r"^\s*mod tagged_ptr\b", "mod tagged_ptr"),
        ]
    except (OSError, SliceError) as ex:
        return None, {}, ["Unknown: %s" % ex]
    # private free functions of gc_ptr.rs that the sliced `impl GcHeader` calls (e.g. colour <-> tag tables moved out of
    # `color` / `set_color` into `const fn` helpers): cut them out too, so the twin still compiles the crate's own code
    helpers = {}
    for m in re.finditer(r"(?m)^(?:pub\(crate\)\s+)?(?:const\s+)?fn\s+(\w+)\b", gp):
        name = m.group(1)
        if re.search(r"(?<![\w.:])%s\s*\(" % re.escape(name), parts[2]):
            try:
                helpers[name] = _item(gp, r"^(?:pub\(crate\)\s+)?(?:const\s+)?fn\s+%s\b" % re.escape(name), "fn %s" % name)
            except SliceError as ex:
                return None, {}, ["Unknown: %s" % ex]
    parts.extend(helpers[n] for n in sorted(helpers))
    text = "// GENERATED from %s/src/gc_ptr.rs and src/types.rs — do not edit\n\n" % vlib.REPO + "\n\n".join(parts) + "\n"
    consts = {}
    vt = parts[3]
    m = re.search(r"#\[repr\(align\((\d+)\)\)\]", vt)
    if m:
        consts["vtable_align"] = int(m.group(1))
    else:
        problems.append("Unknown: GcVtable has no #[repr(align(N))]")
    impl = parts[2]

    def fn_body(name):
        try:
            return _item(impl, r"fn %s\b" % name, "GcHeader::%s" % name)
        except SliceError as ex:
            problems.append(str(ex))
            return ""

    def masks_in(body, fn):
        return [_num(x) for x in re.findall(r"tagged_ptr::%s::<\s*(0x[0-9a-fA-F]+|\d+)\s*," % fn, body)]

    pairs = [("color", "get", "set_color", "set", "color_mask"),
             ("needs_trace", "get_bool", "set_needs_trace", "set_bool", "trace_mask"),
             ("is_live", "get_bool", "set_live", "set_bool", "live_mask")]
    for getter, gfn, setter, sfn, key in pairs:
        g = masks_in(fn_body(getter), gfn)
        s = masks_in(fn_body(setter), sfn)
        if len(g) == 1 and len(s) == 1 and g == s:
            consts[key] = g[0]
        else:
            problems.append("Unknown: masks of %s/%s not recognised or different: get=%s set=%s" % (getter, setter, g, s))
    # colour codes (the tables may live in a private helper called by color / set_color)
    def with_helpers(body):
        return body + "".join(h for n, h in sorted(helpers.items()) if re.search(r"(?<![\w.:])%s\s*\(" % re.escape(n), body))
    color_src, set_color_src = with_helpers(fn_body("color")), with_helpers(fn_body("set_color"))
    codes_get = dict((_num(a), b) for a, b in re.findall(r"(0x[0-9a-fA-F]+|\d+)\s*=>\s*GcColor::(\w+)", color_src))
    codes_set = dict((b, _num(a)) for b, a in re.findall(r"GcColor::(\w+)\s*=>\s*(0x[0-9a-fA-F]+|\d+)", set_color_src))
    expect = {"White": 0, "WhiteWeak": 1, "Gray": 2, "Black": 3}
    if codes_set != expect:
        problems.append("Unknown: colour encoding in set_color is %s, the model has %s" % (codes_set, expect))
    if any(expect.get(n) != c for c, n in codes_get.items()) or not re.search(r"_\s*=>\s*GcColor::Black", color_src):
        problems.append("Unknown: colour decoding in color() is %s (+ wildcard), the model has %s" % (codes_get, expect))
    consts["color_codes"] = codes_set
    return text, consts, problems


# --------------------------------------------------------------------------------------------
# cargo
# --------------------------------------------------------------------------------------------
def prepare_crate():
    """(Re)generate the build crate. Returns (dir, slice_problems, consts)."""
    d = crate_dir()
    os.makedirs(d, exist_ok=True)
    tmpl = open(os.path.join(HARNESS, "Cargo.toml.in")).read().replace("@REPO@", os.path.abspath(vlib.REPO))
    write_if_changed(os.path.join(d, "Cargo.toml"), tmpl)
    link = os.path.join(d, "src")
    want = os.path.join(HARNESS, "src")
    if not (os.path.islink(link) and os.readlink(link) == want):
        if os.path.islink(link) or os.path.exists(link):
            os.remove(link)
        os.symlink(want, link)
    lock = os.path.join(d, "Cargo.lock")
    src_lock = os.path.join(vlib.REPO, "Cargo.lock")
    if os.path.exists(src_lock):
        try:
            same = open(lock).read() == open(src_lock).read()
        except OSError:
            same = False
        if not same and not os.path.exists(lock):
            shutil.copy(src_lock, lock)
    text, consts, problems = slice_tag_source()
    if text is None:
        text = "compile_error!(\"could not slice the flag-bit code out of src/gc_ptr.rs\");\n"
    write_if_changed(os.path.join(d, "gen", "tag_slice.rs"), text)
    return d, problems, consts


def build(release=False, thorough_grid=False, timeout=1500):
    """Build all harness binaries against the current working tree of vlib.REPO."""
    with Lock("layout-cargo-" + _repo_key()):
        d, problems, consts = prepare_crate()
        ok, out, bindir = vlib.cargo_build(d, target_dir(thorough_grid), release=release, hooks=True,
                                           features=["thorough"] if thorough_grid else None, timeout=timeout)
    return ok, out, bindir, problems, consts


def run_bin(bindir, name, args, timeout=900):
    t0 = time.time()
    rc, out = vlib.run([os.path.join(bindir, name)] + [str(a) for a in args], timeout=timeout)
    return rc, out, time.time() - t0


def last_case(out):
    last = None
    for l in out.split("\n"):
        if l.startswith("CASE "):
            last = l
    return last


def kv(line):
    return dict(p.split("=", 1) for p in line.split()[1:] if "=" in p)


# --------------------------------------------------------------------------------------------
# Coq project, audit, extraction
# --------------------------------------------------------------------------------------------
def coq_sources_hash():
    files = []
    for dp, dn, fn in os.walk(COQ):
        dn[:] = sorted(x for x in dn if x not in ("Gen",))
        for f in sorted(fn):
            if f.endswith(".v") or f.endswith(".ml") or f == "_CoqProject":
                files.append(os.path.join(dp, f))
    return vlib.tree_hash(files)


def ensure_coq(timeout=1200):
    """Full .vo build of the hand-written development. Returns (ok, log)."""
    with Lock("layout-coq"):
        ok, out = vlib.coq_make(COQ, timeout=timeout, jobs=6)
    return ok, out


def ensure_model(timeout=600):
    """Extraction + OCaml driver, rebuilt when the Coq sources or the driver change."""
    with Lock("layout-extract"):
        os.makedirs(EXTRACT_DIR, exist_ok=True)
        stamp = os.path.join(EXTRACT_DIR, "stamp")
        h = coq_sources_hash()
        try:
            if open(stamp).read() == h and os.path.exists(MODEL_BIN):
                return True, "cached"
        except OSError:
            pass
        rc, out = vlib.run(["coqc", "-q", "-Q", COQ, LOGICAL, os.path.join(COQ, "Extract", "Extract.v")],
                           cwd=EXTRACT_DIR, timeout=timeout)
        if rc != 0:
            return False, "extraction failed:\n" + out
        shutil.copy(os.path.join(COQ, "Extract", "driver.ml"), os.path.join(EXTRACT_DIR, "driver.ml"))
        rc, out2 = vlib.run(["ocamlfind", "ocamlopt", "-O2", "layout_model.mli", "layout_model.ml", "driver.ml",
                             "-o", "layout_model"], cwd=EXTRACT_DIR, timeout=timeout)
        if rc != 0:
            rc, out2 = vlib.run(["ocamlfind", "ocamlopt", "layout_model.mli", "layout_model.ml", "driver.ml",
                                 "-o", "layout_model"], cwd=EXTRACT_DIR, timeout=timeout)
        if rc != 0:
            return False, "ocaml build failed:\n" + out2
        with open(stamp, "w") as f:
            f.write(h)
        return True, out + out2


def run_model(header_lines, case_lines, timeout=600):
    """Evaluate the extracted checkers. Returns (ok, bad: list of (index into case_lines, msg), raw)."""
    text = "\n".join(list(header_lines) + list(case_lines)) + "\n"
    rc, out = vlib.run([MODEL_BIN], input=text, timeout=timeout)
    bad, done, flags = [], None, {}
    nh = len(header_lines)
    for l in out.split("\n"):
        if l.startswith("BAD "):
            p = l.split(" ", 2)
            bad.append((int(p[1]) - 1 - nh, p[2] if len(p) > 2 else ""))
        elif l.startswith("DONE "):
            done = l.split()
        elif l.startswith("PLATOK") or l.startswith("MASKSOK"):
            flags[l.split()[0]] = l.split()[2] == "true"
    if done is not None and len(done) > 3:
        flags["LAYOUTDIFF"] = int(done[3])
    ok = rc == 0 and done is not None and int(done[1]) == len(case_lines)
    return ok, bad, flags, out[-2000:]


def audit(chk, props_file, prefix):
    """Forbidden-word scan + Print Assumptions of every theorem of Props/<file>."""
    hits = vlib.coq_forbidden_scan(COQ)
    chk.obligation("%s: no Admitted/Axiom/Parameter/... in coq-layout" % prefix, not hits, "\n".join(hits))
    with Lock("layout-coq"):
        ok, res, raw = vlib.coq_print_assumptions(COQ, LOGICAL, props_file, timeout=600)
    if not ok:
        chk.obligation("%s: %s compiles" % (prefix, props_file), False, raw[-4000:])
        return {}
    for thm, axioms in res.items():
        bad = [a for a in axioms if a not in vlib.ALLOWED_AXIOMS]
        detail = "Closed under the global context" if not axioms else "axioms: " + ", ".join(axioms)
        chk.obligation("%s (%s)" % (thm, props_file), not bad, detail)
    chk.assumptions = sorted(set(a for ax in res.values() for a in ax))
    return res


# --------------------------------------------------------------------------------------------
# driver syntax -> Coq terms
# --------------------------------------------------------------------------------------------
class Toks:
    def __init__(self, line):
        self.t = line.split()
        self.i = 0

    def next(self):
        x = self.t[self.i]
        self.i += 1
        return x

    def n(self):
        return str(int(self.next()))

    def b(self):
        return "true" if self.next() == "1" else "false"

    def layout(self):
        return "(mkL %s %s)" % (self.n(), self.n())


def _kind(t, prefix):
    k = t.next()
    if k == "Z":
        return "(%sSized %s)" % (prefix, t.layout())
    if k == "S":
        return "(%sSlice %s)" % (prefix, t.layout())
    if k == "T":
        return "%sStr" % prefix
    if k == "W":
        return "(%sSWH %s %s)" % (prefix, t.layout(), t.layout())
    raise ValueError("kind " + k)


def coq_term(line):
    """(sort, term) for one case line; sort in D, L, T, B."""
    t = Toks(line)
    sort = t.next()
    if sort == "D":
        k = t.next()
        if k == "V":
            return sort, "DValid %s %s %s" % (t.n(), t.n(), t.b())
        if k == "E":
            a = [t.n() for _ in range(4)]
            r = t.next()
            res = "None" if r == "N" else "(Some (%s, %s, %s))" % (t.n(), t.n(), t.n())
            return sort, "DExtend %s %s" % (" ".join(a), res)
        if k == "P":
            return sort, "DPad %s %s %s" % (t.n(), t.n(), t.n())
        if k == "A":
            a = [t.n() for _ in range(3)]
            r = t.next()
            res = "None" if r == "N" else "(Some %s)" % t.n()
            return sort, "DArray %s %s" % (" ".join(a), res)
    if sort == "L":
        custom = t.b()
        m = t.layout()
        k = _kind(t, "K")
        ln = t.n()
        r = t.next()
        if r == "O":
            res = "(LOk %s)" % " ".join(t.n() for _ in range(8))
        elif r == "P":
            res = "(LPanic %s)" % t.n()
        else:
            raise ValueError("lres " + r)
        return sort, "LCase %s %s %s %s %s" % (custom, m, k, ln, res)
    if sort == "T":
        k = t.next()
        if k == "O":
            vt = t.n()
            nops = int(t.next())
            ops = []
            for _ in range(nops):
                o = t.next()
                if o == "C":
                    ops.append("SetColor " + ["White", "WhiteWeak", "Gray", "Black"][int(t.next())])
                elif o == "N":
                    ops.append("SetNeedsTrace " + t.b())
                elif o == "L":
                    ops.append("SetLive " + t.b())
                else:
                    raise ValueError("tagop " + o)
            return sort, "TOps %s [%s] %s %s %s %s" % (vt, "; ".join(ops), t.n(), t.n(), t.b(), t.b())
        if k == "U":
            return sort, "TUntag %s %s" % (t.n(), t.n())
        if k == "G":
            return sort, "TGet %s %s %s" % (t.n(), t.n(), t.n())
        if k == "S":
            return sort, "TSet %s %s %s %s" % (t.n(), t.n(), t.n(), t.n())
        if k == "GB":
            return sort, "TGetB %s %s %s" % (t.n(), t.n(), t.b())
        if k == "SB":
            return sort, "TSetB %s %s %s %s" % (t.n(), t.n(), t.b(), t.n())
    if sort == "B":
        k = t.next()
        if k == "R":
            return sort, "BRejected %s %s %s" % (_kind(t, "B"), t.n(), t.n())
        bk = _kind(t, "B")
        ln = t.n()
        s = t.next()
        sc = {"AN": "SAbandonNew", "AH": "SAbandonHdr", "CO": "SComplete", "WR": "SWrite", "AS": "SAssume"}.get(s)
        if s == "PA":
            sc = "(SPanicAt %s)" % t.n()
        elif s == "CP":
            sc = "(SCopy %s)" % t.n()
        elif sc is None:
            raise ValueError("scenario " + s)
        fl = "{| hdr_obs := %s; elem_obs := %s; anon := %s |}" % (t.b(), t.b(), t.b())
        nev = int(t.next())
        evs = []
        for _ in range(nev):
            e = t.next()
            if e == "A":
                evs.append("EvAlloc " + t.layout())
            elif e == "F":
                evs.append("EvFree " + t.layout())
            elif e == "E":
                evs.append("EvDropElem " + t.n())
            else:
                evs.append({"P": "EvPanic", "H": "EvDropHeader", "V": "EvDropValue", "K": "EvLink"}[e])
        dc, dd, linked = t.n(), t.n(), t.b()
        h = t.next()
        hdr = "None" if h == "-" else "(Some %s)" % t.n()
        e = t.next()
        if e == "-":
            elems = "None"
        else:
            c = int(t.next())
            elems = "(Some [%s])" % "; ".join(t.n() for _ in range(c))
        obs = "{| ob_events := [%s]; ob_dcount := %s; ob_ddebt := %s; ob_linked := %s; ob_hdr := %s; ob_elems := %s |}" % (
            "; ".join(evs), dc, dd, linked, hdr, elems)
        return sort, "BCase %s %s %s %s %s" % (bk, ln, sc, fl, obs)
    raise ValueError("cannot translate case line: " + line[:80])


def coq_sample_file(name, plat, masks, lines):
    """A generated-table theorem: the listed cases (a sample of what the extracted model was run
    on) re-evaluated inside Coq with vm_compute."""
    groups = {"D": [], "L": [], "T": [], "B": []}
    for l in lines:
        s, term = coq_term(l)
        groups[s].append(term)
    ty = {"D": "dcase", "L": "lcase", "T": "tcase", "B": "bcase"}
    okf = {"D": "dcase_ok P", "L": "lcase_ok P", "T": "tcase_ok P M", "B": "bcase_ok P"}
    out = ["(* GENERATED by layout_common.py — a sample of the observed cases, re-checked in Coq *)",
           "Require Import NArith List Bool.",
           "Require Import GALayout.ModelLayout GALayout.ModelBuilder GALayout.CaseCheck.",
           "Import ListNotations. Open Scope N_scope.",
           "Definition P : Platform := {| usize_bits := %d; hdr_size := %d; hdr_align_log := %d; vtable_align_log := %d |}." % plat,
           "Definition M : Masks := {| color_mask := %d; trace_mask := %d; live_mask := %d |}." % masks]
    thms = []
    for s in "DLTB":
        if not groups[s]:
            continue
        chunks = [groups[s][i:i + 200] for i in range(0, len(groups[s]), 200)]
        names = []
        for ci, ch in enumerate(chunks):
            nm = "cases_%s_%d" % (s, ci)
            names.append(nm)
            out.append("Definition %s : list %s := [\n  %s\n]." % (nm, ty[s], ";\n  ".join(ch)))
        out.append("Definition cases_%s : list %s := %s." % (s, ty[s], " ++ ".join(names)))
        out.append("Definition bad_%s : list N := Eval vm_compute in bad_indices (%s) cases_%s." % (s, okf[s], s))
        out.append("Print bad_%s." % s)
        thm = "%s_sample_%s_ok" % (name, s)
        thms.append(thm)
        out.append("Theorem %s : forallb (%s) cases_%s = true.\nProof. vm_compute. reflexivity. Qed." % (thm, okf[s], s))
        out.append("Print Assumptions %s." % thm)
    return "\n".join(out) + "\n", thms


def compile_gen(filename, text, timeout=600, deps=("CaseCheck.vo",)):
    """Write Gen/<filename> (only when changed) and compile it (skipped when neither the file nor
    the .vo files it depends on changed). Returns (ok, output)."""
    path = os.path.join(COQ, "Gen", filename)
    with Lock("layout-gen-" + filename):
        changed = write_if_changed(path, text)
        vo = path[:-2] + ".vo"
        stamp = path + ".out"
        if not changed and os.path.exists(vo) and os.path.exists(stamp) and \
                os.path.getmtime(vo) >= os.path.getmtime(path) and \
                all(os.path.getmtime(vo) >= os.path.getmtime(os.path.join(COQ, d)) for d in deps):
            return True, open(stamp).read()
        rc, out = vlib.run(["coqc", "-q", "-Q", ".", LOGICAL, os.path.join("Gen", filename)], cwd=COQ, timeout=timeout)
        if rc == 0:
            with open(stamp, "w") as f:
                f.write(out)
        else:
            for p in (vo, stamp):
                if os.path.exists(p):
                    os.remove(p)
        return rc == 0, out


def tag_consts_file(plat, masks):
    return """(* GENERATED from %s/src/gc_ptr.rs (masks, vtable alignment) and from the twin's size_of /
   align_of (platform) on every run *)
Require Import NArith List Bool.
Require Import GALayout.ModelLayout GALayout.Props.C17.
Import ListNotations. Open Scope N_scope.

Definition gen_platform : Platform :=
  {| usize_bits := %d; hdr_size := %d; hdr_align_log := %d; vtable_align_log := %d |}.
Definition gen_masks : Masks := {| color_mask := %d; trace_mask := %d; live_mask := %d |}.

Theorem gen_plat_ok : plat_ok gen_platform = true.
Proof. vm_compute. reflexivity. Qed.
Print Assumptions gen_plat_ok.

Theorem gen_masks_ok : masks_ok gen_platform gen_masks = true.
Proof. vm_compute. reflexivity. Qed.
Print Assumptions gen_masks_ok.

(* the tag theorem instantiated with the constants found in the source *)
Theorem gen_tag_bits :
  forall (vt : N) (ops : list tagop),
    vt mod 2 ^ vtable_align_log gen_platform = 0 -> vt < usize_lim gen_platform ->
    untag gen_platform (apply_tagops gen_platform gen_masks ops vt) = vt /\\
    read_flags gen_masks (apply_tagops gen_platform gen_masks ops vt) = fold_left flags_step ops flags0.
Proof. intros. apply C17_tag_bits; [exact gen_masks_ok | assumption | assumption]. Qed.
Print Assumptions gen_tag_bits.
""" % ((vlib.REPO,) + tuple(plat) + tuple(masks))


def log2(n):
    n = int(n)
    assert n > 0 and n & (n - 1) == 0, n
    return n.bit_length() - 1


def sample(lines, k, rng):
    lines = list(lines)
    if len(lines) <= k:
        return lines
    idx = sorted(rng.sample(range(len(lines)), k))
    return [lines[i] for i in idx]


def setup():
    """Cold builds: Coq project, extraction + driver, harness (debug)."""
    ok, out = ensure_coq()
    if not ok:
        raise RuntimeError("coq-layout build failed:\n" + out[-3000:])
    ok, out = ensure_model()
    if not ok:
        raise RuntimeError(out[-3000:])
    ok, out, _, _, _ = build(release=False, thorough_grid=False)
    if not ok:
        raise RuntimeError("harness build failed:\n" + out[-3000:])
