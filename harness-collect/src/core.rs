//! Tokens, element types, the recording tracer and the case printer.
use gc_arena::collect::Trace;
use gc_arena::{Collect, Gc, GcWeak, Mutation};
use std::cell::Cell;
use std::collections::HashMap;
use std::hash::{Hash, Hasher};
use std::rc::Rc;

/// What a token pointer points to. `'static`, counts its own drops.
pub struct Payload {
    pub id: u32,
    pub drops: Rc<Cell<u32>>,
}
impl Drop for Payload {
    fn drop(&mut self) {
        self.drops.set(self.drops.get() + 1);
    }
}
// The harness's own impl (part of the trusted base): a 'static value holds no arena pointer.
unsafe impl<'gc> Collect<'gc> for Payload {
    const NEEDS_TRACE: bool = false;
}

pub type Ptr = (u32, char); // (token id, 'S' | 'W')

/// An element value that owns up to two strong and two weak pointers. NEEDS_TRACE = true.
#[derive(Copy, Clone)]
pub struct El<'gc> {
    pub id: u32,
    pub s: [Option<Gc<'gc, Payload>>; 2],
    pub w: [Option<GcWeak<'gc, Payload>>; 2],
}
// The harness's own impl (trusted): reports each owned pointer directly to the tracer, without
// going through the crate's `Gc`/`GcWeak` impls or `Trace::trace`.
unsafe impl<'gc> Collect<'gc> for El<'gc> {
    const NEEDS_TRACE: bool = true;
    fn trace<T: Trace<'gc>>(&self, cc: &mut T) {
        for g in self.s.iter().flatten() {
            cc.trace_gc(Gc::erase(*g));
        }
        for w in self.w.iter().flatten() {
            cc.trace_gc_weak(GcWeak::erase(*w));
        }
    }
}
impl<'gc> PartialEq for El<'gc> {
    fn eq(&self, o: &Self) -> bool {
        self.id == o.id
    }
}
impl<'gc> Eq for El<'gc> {}
impl<'gc> PartialOrd for El<'gc> {
    fn partial_cmp(&self, o: &Self) -> Option<std::cmp::Ordering> {
        Some(self.cmp(o))
    }
}
impl<'gc> Ord for El<'gc> {
    fn cmp(&self, o: &Self) -> std::cmp::Ordering {
        self.id.cmp(&o.id)
    }
}
impl<'gc> Hash for El<'gc> {
    fn hash<H: Hasher>(&self, h: &mut H) {
        self.id.hash(h)
    }
}

/// An element value of a type that cannot hold arena pointers. NEEDS_TRACE = false.
#[derive(Copy, Clone, PartialEq, Eq, PartialOrd, Ord, Hash)]
pub struct Pl(pub u32);
unsafe impl<'gc> Collect<'gc> for Pl {
    const NEEDS_TRACE: bool = false;
}

pub struct State<'a, 'gc> {
    pub mc: &'a Mutation<'gc>,
    pub next: u32,
    pub seed: u32,
    pub addr2id: HashMap<usize, u32>,
    pub strong: Vec<(u32, GcWeak<'gc, Payload>, Rc<Cell<u32>>)>,
    /// tokens that elements hold only WEAKLY (they must not be retained by the container)
    pub weak_only: Vec<(u32, GcWeak<'gc, Payload>, Rc<Cell<u32>>)>,
    pub cases: usize,
    pub evaluations: usize,
    pub only: Option<String>,
    pub exercised: Vec<String>,
    pub salt: usize,
    pub per_impl: HashMap<String, usize>,
}

impl<'a, 'gc> State<'a, 'gc> {
    pub fn new(mc: &'a Mutation<'gc>, seed: u32, only: Option<String>) -> Self {
        State {
            mc,
            next: 1,
            seed,
            addr2id: HashMap::new(),
            strong: Vec::new(),
            weak_only: Vec::new(),
            cases: 0,
            evaluations: 0,
            only,
            exercised: Vec::new(),
            salt: 0,
            per_impl: HashMap::new(),
        }
    }
    pub fn fresh(&mut self) -> u32 {
        let n = self.next;
        self.next += 1;
        n
    }
    pub fn token(&mut self) -> (Gc<'gc, Payload>, u32, Rc<Cell<u32>>) {
        let id = self.fresh();
        let drops = Rc::new(Cell::new(0));
        let g = Gc::new(self.mc, Payload { id, drops: drops.clone() });
        self.addr2id.insert(Gc::as_ptr(g) as usize, id);
        (g, id, drops)
    }
    /// Called by every builder right before it makes its elements: also fixes the pointer
    /// pattern of the next elements as a function of (impl, how many values of that impl so far),
    /// so that the same value is built under every feature set.
    pub fn wants(&mut self, impl_id: &str) -> bool {
        let w = match &self.only {
            Some(o) => o == impl_id,
            None => true,
        };
        if w {
            let n = self.per_impl.entry(impl_id.to_string()).or_insert(0);
            *n += 1;
            self.salt = *n + impl_id.len();
        }
        w
    }
}

#[derive(Clone)]
pub struct PosDesc {
    pub nt: bool,
    pub elems: Vec<Vec<Ptr>>,
}

pub trait Elem<'gc>: Collect<'gc> + Copy + Ord + Hash + 'gc {
    const NT: bool;
    fn make(st: &mut State<'_, 'gc>, k: usize) -> (Self, Vec<Ptr>);
}

const PATTERNS: [(usize, usize); 6] = [(1, 0), (0, 1), (1, 1), (2, 2), (0, 0), (2, 0)];

impl<'gc> Elem<'gc> for El<'gc> {
    const NT: bool = true;
    fn make(st: &mut State<'_, 'gc>, k: usize) -> (Self, Vec<Ptr>) {
        let (ns, nw) = PATTERNS[(k + st.seed as usize + st.salt) % PATTERNS.len()];
        let id = st.fresh();
        let mut e = El { id, s: [None; 2], w: [None; 2] };
        let mut d = Vec::new();
        for j in 0..ns {
            let (g, t, drops) = st.token();
            st.strong.push((t, Gc::downgrade(g), drops));
            e.s[j] = Some(g);
            d.push((t, 'S'));
        }
        for j in 0..nw {
            let (g, t, drops) = st.token();
            e.w[j] = Some(Gc::downgrade(g));
            st.weak_only.push((t, Gc::downgrade(g), drops));
            d.push((t, 'W'));
        }
        (e, d)
    }
}

impl<'gc> Elem<'gc> for Pl {
    const NT: bool = false;
    fn make(st: &mut State<'_, 'gc>, _k: usize) -> (Self, Vec<Ptr>) {
        (Pl(st.fresh()), Vec::new())
    }
}

pub fn make_n<'gc, T: Elem<'gc>>(st: &mut State<'_, 'gc>, n: usize) -> (Vec<T>, PosDesc) {
    let mut v = Vec::with_capacity(n);
    let mut d = Vec::with_capacity(n);
    for k in 0..n {
        let (e, p) = T::make(st, k);
        v.push(e);
        d.push(p);
    }
    (v, PosDesc { nt: T::NT, elems: d })
}

/// The recording `Trace` implementation. It does NOT override `Trace::trace`, so the crate's
/// default (with its NEEDS_TRACE short-circuit) is what runs.
pub struct Recorder<'r> {
    pub addr2id: &'r mut HashMap<usize, u32>,
    pub next: &'r mut u32,
    pub out: Vec<Ptr>,
    pub discovered: Vec<u32>,
}
impl<'r> Recorder<'r> {
    fn id_of(&mut self, addr: usize) -> u32 {
        if let Some(i) = self.addr2id.get(&addr) {
            return *i;
        }
        let n = *self.next;
        *self.next += 1;
        self.addr2id.insert(addr, n);
        self.discovered.push(n);
        n
    }
}
impl<'r, 'gc> Trace<'gc> for Recorder<'r> {
    fn trace_gc(&mut self, gc: Gc<'gc, ()>) {
        let id = self.id_of(Gc::as_ptr(gc) as usize);
        self.out.push((id, 'S'));
    }
    fn trace_gc_weak(&mut self, gc: GcWeak<'gc, ()>) {
        let id = self.id_of(GcWeak::as_ptr(gc) as usize);
        self.out.push((id, 'W'));
    }
}

pub fn jstr(s: &str) -> String {
    let mut o = String::from("\"");
    for c in s.chars() {
        match c {
            '"' => o.push_str("\\\""),
            '\\' => o.push_str("\\\\"),
            c if (c as u32) < 0x20 => o.push(' '),
            c => o.push(c),
        }
    }
    o.push('"');
    o
}

pub fn jptrs(v: &[Ptr]) -> String {
    format!("[{}]", v.iter().map(|(i, s)| format!("[{},\"{}\"]", i, s)).collect::<Vec<_>>().join(","))
}

/// `own`: directly owned pointer fields: (field, Some(token id) if known in advance, strength).
/// An unknown own pointer (a private field) is discovered from the trace and reported as such.
pub fn run_case<'gc, C: Collect<'gc> + ?Sized>(
    st: &mut State<'_, 'gc>,
    impl_id: &str,
    pos: Vec<(String, PosDesc)>,
    own: Vec<(&str, Option<u32>, char)>,
    value: &C,
) {
    run_case_as(st, "case", impl_id, pos, own, value)
}

/// `kind` = "case": a provided impl (counted in `exercised`); "dyncase": the same value traced through
/// the object-safe adapter (`dyn DynCollect` / a `dyn_collect!` trait object), `impl_id` names the route.
pub fn run_case_as<'gc, C: Collect<'gc> + ?Sized>(
    st: &mut State<'_, 'gc>,
    kind: &str,
    impl_id: &str,
    pos: Vec<(String, PosDesc)>,
    own: Vec<(&str, Option<u32>, char)>,
    value: &C,
) {
    if kind == "case" && !st.exercised.iter().any(|x| x == impl_id) {
        st.exercised.push(impl_id.to_string());
    }
    let real_nt = C::NEEDS_TRACE;
    let (direct, disc1) = {
        let mut rec = Recorder { addr2id: &mut st.addr2id, next: &mut st.next, out: vec![], discovered: vec![] };
        value.trace(&mut rec);
        (rec.out, rec.discovered)
    };
    let (guarded, disc2) = {
        let mut rec = Recorder { addr2id: &mut st.addr2id, next: &mut st.next, out: vec![], discovered: vec![] };
        rec.trace(value);
        (rec.out, rec.discovered)
    };
    // own pointers not known in advance: take them from the discovered ones, in order
    let mut disc: Vec<u32> = disc1.clone();
    disc.extend(disc2.iter());
    let mut di = disc.iter();
    let mut own_out = Vec::new();
    let mut own_discovered = false;
    for (f, id, s) in &own {
        let id = match id {
            Some(i) => *i,
            None => {
                own_discovered = true;
                match di.next() {
                    Some(i) => *i,
                    None => 0, // never reported: token 0 stands for "the unnamed own pointer"
                }
            }
        };
        own_out.push(format!("[{},{},\"{}\"]", jstr(f), id, s));
    }
    let stray: Vec<u32> = di.cloned().collect();
    let pos_s: Vec<String> = pos
        .iter()
        .map(|(n, d)| {
            format!(
                "[{},{},[{}]]",
                jstr(n),
                d.nt,
                d.elems.iter().map(|e| jptrs(e)).collect::<Vec<_>>().join(",")
            )
        })
        .collect();
    println!(
        "{{\"kind\":{},\"impl\":{},\"inst\":{},\"pos\":[{}],\"own\":[{}],\"own_discovered\":{},\"stray\":{:?},\"real_nt\":{},\"direct\":{},\"guarded\":{}}}",
        jstr(kind),
        jstr(impl_id),
        jstr(std::any::type_name::<C>()),
        pos_s.join(","),
        own_out.join(","),
        own_discovered,
        stray,
        real_nt,
        jptrs(&direct),
        jptrs(&guarded)
    );
    st.cases += 1;
    st.evaluations += 2;
}
