//! One builder per provided `Collect` impl: the value is built with tokens in exactly known
//! positions, then handed to `run_case` (recording tracer + NEEDS_TRACE).
//! The impl ids are those of /verif/translator-collect.
#![allow(clippy::type_complexity)]
use crate::core::*;
use gc_arena::lock::{Lock, OnceLock, RefLock};
use gc_arena::{Collect, Gc, GcWeak};
use std::collections::{BTreeMap, BTreeSet, BinaryHeap, LinkedList, VecDeque};
use std::hash::BuildHasherDefault;
use std::rc::Rc;
use std::sync::Arc;

pub type BH = BuildHasherDefault<std::collections::hash_map::DefaultHasher>;

fn p1(name: &str, d: PosDesc) -> Vec<(String, PosDesc)> {
    vec![(name.to_string(), d)]
}

fn iter_case<'gc, T: Elem<'gc>, C: FromIterator<T> + Collect<'gc>>(
    st: &mut State<'_, 'gc>,
    id: &str,
    posname: &str,
    n: usize,
) {
    if !st.wants(id) {
        return;
    }
    let (v, d) = make_n::<T>(st, n);
    let c: C = v.into_iter().collect();
    run_case(st, id, p1(posname, d), vec![], &c);
}

fn map_case<'gc, K: Elem<'gc>, V: Elem<'gc>, C: FromIterator<(K, V)> + Collect<'gc>>(
    st: &mut State<'_, 'gc>,
    id: &str,
    n: usize,
) {
    if !st.wants(id) {
        return;
    }
    let (ks, kd) = make_n::<K>(st, n);
    let (vs, vd) = make_n::<V>(st, n);
    let c: C = ks.into_iter().zip(vs).collect();
    run_case(st, id, vec![("arg0".to_string(), kd), ("arg1".to_string(), vd)], vec![], &c);
}

fn array_case<'gc, T: Elem<'gc>, const N: usize>(st: &mut State<'_, 'gc>) {
    if !st.wants("array") {
        return;
    }
    let (v, d) = make_n::<T>(st, N);
    let a: [T; N] = core::array::from_fn(|i| v[i]);
    run_case(st, "array", p1("arg0", d), vec![], &a);
}

fn seq_family<'gc, T: Elem<'gc>>(st: &mut State<'_, 'gc>, counts: &[usize]) {
    for &n in counts {
        iter_case::<T, Vec<T>>(st, "std::Vec", "arg0", n);
        iter_case::<T, VecDeque<T>>(st, "std::VecDeque", "arg0", n);
        // a ring buffer whose contents WRAP (second slice of `as_slices` non-empty): elements pushed at both ends
        if st.wants("std::VecDeque") && n >= 2 {
            let (v, d) = make_n::<T>(st, n);
            let mut dq: VecDeque<T> = VecDeque::with_capacity(n);
            for (i, x) in v.into_iter().enumerate() {
                if i % 2 == 0 { dq.push_back(x) } else { dq.push_front(x) }
            }
            run_case(st, "std::VecDeque", p1("arg0", d), vec![], &dq);
        }
        iter_case::<T, LinkedList<T>>(st, "std::LinkedList", "arg0", n);
        iter_case::<T, BTreeSet<T>>(st, "std::BTreeSet", "arg0", n);
        iter_case::<T, BinaryHeap<T>>(st, "std::BinaryHeap", "arg0", n);
        #[cfg(feature = "std")]
        iter_case::<T, std::collections::HashSet<T, BH>>(st, "std::HashSet", "arg0", n);
        #[cfg(feature = "hashbrown")]
        iter_case::<T, hashbrown::HashSet<T, BH>>(st, "hashbrown::HashSet", "arg0", n);
        #[cfg(feature = "indexmap")]
        iter_case::<T, indexmap::IndexSet<T, BH>>(st, "indexmap::IndexSet", "arg0", n);
        #[cfg(feature = "smallvec")]
        iter_case::<T, smallvec::SmallVec<[T; 4]>>(st, "smallvec::SmallVec", "arg0::Item", n);
        #[cfg(feature = "hashbrown")]
        if st.wants("hashbrown::HashTable") {
            use std::hash::BuildHasher;
            let (v, d) = make_n::<T>(st, n);
            let bh = BH::default();
            let mut t = hashbrown::HashTable::<T>::new();
            for e in v {
                t.insert_unique(bh.hash_one(&e), e, |x| bh.hash_one(x));
            }
            run_case(st, "hashbrown::HashTable", p1("arg0", d), vec![], &t);
        }
        #[cfg(feature = "slotmap")]
        if st.wants("slotmap::SlotMap") {
            let (v, d) = make_n::<T>(st, n);
            let mut m = slotmap::SlotMap::<slotmap::DefaultKey, T>::new();
            let mut keys = Vec::new();
            for e in v {
                keys.push(m.insert(e));
            }
            run_case(st, "slotmap::SlotMap", p1("arg1", d), vec![], &m);
            // also with a hole: remove nothing here (removed values are not contained any more)
            let _ = keys;
        }
        if st.wants("slice") {
            let (v, d) = make_n::<T>(st, n);
            let b: Box<[T]> = v.into_boxed_slice();
            run_case::<[T]>(st, "slice", p1("arg0", d), vec![], &b);
        }
    }
    array_case::<T, 0>(st);
    array_case::<T, 1>(st);
    array_case::<T, 2>(st);
    array_case::<T, 3>(st);
    array_case::<T, 4>(st);
    if counts.iter().any(|&n| n > 8) {
        array_case::<T, 17>(st);
    }
    if counts.iter().any(|&n| n > 32) {
        array_case::<T, 100>(st);
    }
}

fn single_family<'gc, T: Elem<'gc>>(st: &mut State<'_, 'gc>) {
    macro_rules! one {
        ($id:expr, $mk:expr) => {
            if st.wants($id) {
                let (v, d) = make_n::<T>(st, 1);
                let c = $mk(v[0]);
                run_case(st, $id, p1("arg0", d), vec![], &c);
            }
        };
    }
    one!("std::Box", |e| Box::new(e));
    one!("std::Rc", |e| Rc::new(e));
    one!("std::Arc", |e| Arc::new(e));
    one!("crate::Lock", |e| Lock::new(e));
    one!("crate::RefLock", |e| RefLock::new(e));
    for n in 0..2usize {
        if st.wants("std::Option") {
            let (v, d) = make_n::<T>(st, n);
            let c: Option<T> = v.first().copied();
            run_case(st, "std::Option", p1("arg0", d), vec![], &c);
        }
        if st.wants("crate::OnceLock") {
            let (v, d) = make_n::<T>(st, n);
            let c: OnceLock<T> = match v.first() {
                Some(e) => OnceLock::from(std::cell::OnceCell::from(*e)),
                None => OnceLock::new(),
            };
            run_case(st, "crate::OnceLock", p1("arg0", d), vec![], &c);
        }
    }
    // unsized pointee: Box<[T]>, Rc<[T]> (position arg0 is the slice type, whose constant is T's)
    if st.wants("std::Box") {
        let (v, d) = make_n::<T>(st, 3);
        let c: Box<[T]> = v.into_boxed_slice();
        run_case(st, "std::Box", p1("arg0", d), vec![], &c);
    }
    if st.wants("std::Rc") {
        let (v, d) = make_n::<T>(st, 3);
        let c: Rc<[T]> = v.into();
        run_case(st, "std::Rc", p1("arg0", d), vec![], &c);
    }
}

fn pair_family<'gc, A: Elem<'gc>, B: Elem<'gc>>(st: &mut State<'_, 'gc>, counts: &[usize]) {
    for &n in counts {
        #[cfg(feature = "std")]
        map_case::<A, B, std::collections::HashMap<A, B, BH>>(st, "std::HashMap", n);
        map_case::<A, B, BTreeMap<A, B>>(st, "std::BTreeMap", n);
        #[cfg(feature = "hashbrown")]
        map_case::<A, B, hashbrown::HashMap<A, B, BH>>(st, "hashbrown::HashMap", n);
        #[cfg(feature = "indexmap")]
        map_case::<A, B, indexmap::IndexMap<A, B, BH>>(st, "indexmap::IndexMap", n);
        if st.wants("crate::SliceWithHeader") {
            let (h, hd) = make_n::<A>(st, 1);
            let (es, ed) = make_n::<B>(st, n);
            let g = gc_arena::GcSliceWithHeaderBuilder::<A, B>::new(n)
                .write_header(h[0])
                .write_slice_with(st.mc, |i| es[i]);
            let r: &gc_arena::SliceWithHeader<A, B> = &*g;
            run_case(
                st,
                "crate::SliceWithHeader",
                vec![("arg0".to_string(), hd), ("arg1".to_string(), ed)],
                vec![],
                r,
            );
        }
    }
    if st.wants("std::Result") {
        let (a, ad) = make_n::<A>(st, 1);
        let c: Result<A, B> = Ok(a[0]);
        let empty = PosDesc { nt: B::NT, elems: vec![] };
        run_case(st, "std::Result", vec![("arg0".to_string(), ad), ("arg1".to_string(), empty)], vec![], &c);
        let (b, bd) = make_n::<B>(st, 1);
        let c: Result<A, B> = Err(b[0]);
        let empty = PosDesc { nt: A::NT, elems: vec![] };
        run_case(st, "std::Result", vec![("arg0".to_string(), empty), ("arg1".to_string(), bd)], vec![], &c);
    }
}

#[cfg(feature = "enum-map")]
mod em {
    use super::*;
    use enum_map::{Enum, EnumMap};
    #[derive(Enum, Copy, Clone)]
    pub enum E1 {
        A,
    }
    #[derive(Enum, Copy, Clone)]
    pub enum E3 {
        A,
        B,
        C,
    }
    fn one<'gc, K: enum_map::EnumArray<T>, T: Elem<'gc>>(st: &mut State<'_, 'gc>, n: usize)
    where
        EnumMap<K, T>: Collect<'gc>,
    {
        let (v, d) = make_n::<T>(st, n);
        let mut k = 0;
        let m: EnumMap<K, T> = EnumMap::from_fn(|_| {
            let e = v[k];
            k += 1;
            e
        });
        assert_eq!(k, n);
        run_case(st, "enum_map::EnumMap", p1("arg1", d), vec![], &m);
    }
    pub fn family<'gc, T: Elem<'gc>>(st: &mut State<'_, 'gc>, big: bool) {
        if !st.wants("enum_map::EnumMap") {
            return;
        }
        one::<E1, T>(st, 1);
        one::<bool, T>(st, 2);
        one::<E3, T>(st, 3);
        if big {
            one::<u8, T>(st, 256);
        }
    }
}

macro_rules! mk {
    ($T:ty, $st:ident, $pos:ident, $i:tt) => {{
        let (e, d) = <$T as Elem>::make($st, $i);
        $pos.push((format!("arg{}", $i), PosDesc { nt: <$T as Elem>::NT, elems: vec![d] }));
        e
    }};
}
macro_rules! tuple_all {
    ($st:ident, $T:ty; $($i:tt)+) => {{
        let id = format!("tuple/{}", [$($i),+].len());
        if $st.wants(&id) {
            let mut pos: Vec<(String, PosDesc)> = Vec::new();
            let v = ( $( mk!($T, $st, pos, $i), )+ );
            run_case($st, &id, pos, vec![], &v);
        }
    }};
}
macro_rules! tuple_mixed {
    ($st:ident, $E:ty, $P:ty; [$($b:tt)*] $c:tt [$($a:tt)*]) => {{
        let id = format!("tuple/{}", [$($b,)* $c, $($a,)*].len());
        if $st.wants(&id) {
            let mut pos: Vec<(String, PosDesc)> = Vec::new();
            let v = ( $( mk!($P, $st, pos, $b), )* mk!($E, $st, pos, $c), $( mk!($P, $st, pos, $a), )* );
            run_case($st, &id, pos, vec![], &v);
        }
    }};
}
macro_rules! tuple_walk {
    ($st:ident, $E:ty, $P:ty; [$($b:tt)*]) => {};
    ($st:ident, $E:ty, $P:ty; [$($b:tt)*] $c:tt $($a:tt)*) => {
        tuple_mixed!($st, $E, $P; [$($b)*] $c [$($a)*]);
        tuple_walk!($st, $E, $P; [$($b)* $c] $($a)*);
    };
}
macro_rules! tuple_arity {
    ($st:ident, $E:ty, $P:ty; $($i:tt)+) => {
        tuple_all!($st, $E; $($i)+);
        tuple_all!($st, $P; $($i)+);
        tuple_walk!($st, $E, $P; [] $($i)+);
    };
}

fn tuples<'gc>(st: &mut State<'_, 'gc>) {
    if st.wants("tuple/0") {
        run_case(st, "tuple/0", vec![], vec![], &());
    }
    tuple_arity!(st, El<'gc>, Pl; 0);
    tuple_arity!(st, El<'gc>, Pl; 0 1);
    tuple_arity!(st, El<'gc>, Pl; 0 1 2);
    tuple_arity!(st, El<'gc>, Pl; 0 1 2 3);
    tuple_arity!(st, El<'gc>, Pl; 0 1 2 3 4);
    tuple_arity!(st, El<'gc>, Pl; 0 1 2 3 4 5);
    tuple_arity!(st, El<'gc>, Pl; 0 1 2 3 4 5 6);
    tuple_arity!(st, El<'gc>, Pl; 0 1 2 3 4 5 6 7);
    tuple_arity!(st, El<'gc>, Pl; 0 1 2 3 4 5 6 7 8);
    tuple_arity!(st, El<'gc>, Pl; 0 1 2 3 4 5 6 7 8 9);
    tuple_arity!(st, El<'gc>, Pl; 0 1 2 3 4 5 6 7 8 9 10);
    tuple_arity!(st, El<'gc>, Pl; 0 1 2 3 4 5 6 7 8 9 10 11);
    tuple_arity!(st, El<'gc>, Pl; 0 1 2 3 4 5 6 7 8 9 10 11 12);
    tuple_arity!(st, El<'gc>, Pl; 0 1 2 3 4 5 6 7 8 9 10 11 12 13);
    tuple_arity!(st, El<'gc>, Pl; 0 1 2 3 4 5 6 7 8 9 10 11 12 13 14);
    tuple_arity!(st, El<'gc>, Pl; 0 1 2 3 4 5 6 7 8 9 10 11 12 13 14 15);
}

fn pointers<'gc>(st: &mut State<'_, 'gc>) {
    if st.wants("crate::Gc") {
        let (g, id, _) = st.token();
        run_case(st, "crate::Gc", vec![], vec![("self", Some(id), 'S')], &g);
        // a Gc to a container: only the pointer itself is reported, not the pointee's contents
        let (v, _) = make_n::<El<'gc>>(st, 2);
        let gv = Gc::new(st.mc, v);
        let id = st.fresh();
        st.addr2id.insert(Gc::as_ptr(gv) as usize, id);
        run_case(st, "crate::Gc", vec![], vec![("self", Some(id), 'S')], &gv);
    }
    if st.wants("crate::GcWeak") {
        let (g, id, _) = st.token();
        let w: GcWeak<'gc, Payload> = Gc::downgrade(g);
        run_case(st, "crate::GcWeak", vec![], vec![("self", Some(id), 'W')], &w);
    }
    if st.wants("crate::ZstCache") {
        let cache = gc_arena::zst_cache::ZstCache::<8>::new(st.mc);
        // the private cached pointer is the one every ZST allocation returns
        let z: Gc<'gc, ()> = cache.alloc(st.mc, ());
        let id = st.fresh();
        st.addr2id.insert(Gc::as_ptr(z) as usize, id);
        run_case(st, "crate::ZstCache", vec![], vec![("cached_ptr", Some(id), 'S')], &cache);
    }
    if st.wants("crate::DynamicRootSet") {
        let set = gc_arena::DynamicRootSet::new(st.mc);
        let (g, _, _) = st.token();
        let _root = set.stash::<gc_arena::Rootable![Payload]>(st.mc, g);
        // the handle owns one private strong pointer (to the slot table); stashed roots are
        // reached through the slot table's own impls (C14), not through this trace
        run_case(st, "crate::DynamicRootSet", vec![], vec![("0", None, 'S')], &set);
    }
}

fn statics<'gc>(st: &mut State<'_, 'gc>) {
    macro_rules! leaf {
        ($id:expr, $v:expr) => {
            if st.wants($id) {
                let v = $v;
                run_case(st, $id, vec![], vec![], &v);
            }
        };
    }
    macro_rules! leaf_ref {
        ($id:expr, $t:ty, $v:expr) => {
            if st.wants($id) {
                let v: &$t = $v;
                run_case::<$t>(st, $id, vec![], vec![], v);
            }
        };
    }
    leaf!("bool", true);
    leaf!("char", 'x');
    leaf!("u8", 1u8);
    leaf!("u16", 1u16);
    leaf!("u32", 1u32);
    leaf!("u64", 1u64);
    leaf!("usize", 1usize);
    leaf!("i8", 1i8);
    leaf!("i16", 1i16);
    leaf!("i32", 1i32);
    leaf!("i64", 1i64);
    leaf!("isize", 1isize);
    leaf!("f32", 1f32);
    leaf!("f64", 1f64);
    leaf!("std::String", String::from("s"));
    leaf_ref!("str", str, "s");
    leaf!("std::CString", std::ffi::CString::new("c").unwrap());
    leaf_ref!("std::CStr", std::ffi::CStr, c"c");
    leaf!("std::TypeId", std::any::TypeId::of::<u8>());
    #[cfg(feature = "std")]
    {
        leaf_ref!("std::Path", std::path::Path, std::path::Path::new("/"));
        leaf!("std::PathBuf", std::path::PathBuf::from("/"));
        leaf_ref!("std::OsStr", std::ffi::OsStr, std::ffi::OsStr::new("o"));
        leaf!("std::OsString", std::ffi::OsString::from("o"));
    }
    // one 'static position each: the content has elements there, but they own nothing
    let stat = |n: usize| PosDesc { nt: false, elems: vec![vec![]; n] };
    if st.wants("ref_static") {
        static X: u32 = 7;
        let r: &'static u32 = &X;
        run_case(st, "ref_static", p1("arg0", stat(1)), vec![], &r);
        let s: &'static str = "abc";
        run_case(st, "ref_static", p1("arg0", stat(1)), vec![], &s);
    }
    if st.wants("std::Cell") {
        run_case(st, "std::Cell", p1("arg0", stat(1)), vec![], &std::cell::Cell::new(3u32));
    }
    if st.wants("std::RefCell") {
        run_case(st, "std::RefCell", p1("arg0", stat(1)), vec![], &std::cell::RefCell::new(vec![1u8]));
    }
    if st.wants("crate::Static") {
        run_case(st, "crate::Static", p1("arg0", stat(1)), vec![], &gc_arena::Static(vec![1u8]));
    }
    if st.wants("std::PhantomData") {
        // PhantomData of a pointer-holding type: stores nothing, so nothing to report
        let ph: std::marker::PhantomData<El<'gc>> = std::marker::PhantomData;
        run_case(st, "std::PhantomData", vec![], vec![], &ph);
    }
}

// ---- the object-safe adapter: the same values traced as trait objects -------------------------
pub trait Shape<'gc>: 'gc + gc_arena::collect::DynCollect<'gc> {}
impl<'gc, T: Collect<'gc> + 'gc> Shape<'gc> for T {}
gc_arena::collect::dyn_collect!(dyn Shape<'gc>);
pub type DynShape<'gc> = Box<dyn Shape<'gc> + 'gc>;

fn dyn_cases<'gc>(st: &mut State<'_, 'gc>) {
    if st.only.is_some() && st.only.as_deref() != Some("dyn") {
        return;
    }
    for n in [1usize, 4, 6] {
        st.salt = n;
        // a Vec of pointer-holding elements (strong and weak tokens in several patterns)
        let (v, d) = make_n::<El<'gc>>(st, n);
        let v: Vec<El<'gc>> = v;
        run_case_as(st, "dyncase", "dyn:Shape(dyn_collect!)<-std::Vec", p1("arg0", d.clone()), vec![], &v as &dyn Shape<'gc>);
        let b: Box<dyn Shape<'gc>> = Box::new(v.clone());
        run_case_as(st, "dyncase", "std::Box<dyn:Shape><-std::Vec", p1("arg0", d), vec![], &b);
        // a single element and a tuple with a plain-data position
        let (e, ed) = make_n::<El<'gc>>(st, 1);
        let (pl, pd) = make_n::<Pl>(st, 1);
        let t = (e[0], pl[0]);
        run_case_as(st, "dyncase", "dyn:Shape(dyn_collect!)<-tuple/2", vec![("arg0".to_string(), ed), ("arg1".to_string(), pd)], vec![], &t as &dyn Shape<'gc>);
        // pointers themselves
        let (g, id, drops) = st.token();
        st.strong.push((id, Gc::downgrade(g), drops));
        let (g2, id2, _) = st.token();
        let w = Gc::downgrade(g2);
        run_case_as(st, "dyncase", "dyn:Shape(dyn_collect!)<-crate::GcWeak", vec![], vec![("self", Some(id2), 'W')], &w as &dyn Shape<'gc>);
    }
}

pub fn all_cases<'gc>(st: &mut State<'_, 'gc>, counts: &[usize]) {
    dyn_cases(st);
    seq_family::<El<'gc>>(st, counts);
    seq_family::<Pl>(st, counts);
    single_family::<El<'gc>>(st);
    single_family::<Pl>(st);
    pair_family::<El<'gc>, El<'gc>>(st, counts);
    pair_family::<El<'gc>, Pl>(st, counts);
    pair_family::<Pl, El<'gc>>(st, counts);
    pair_family::<Pl, Pl>(st, counts);
    #[cfg(feature = "enum-map")]
    {
        let big = counts.iter().any(|&n| n > 8);
        em::family::<El<'gc>>(st, big);
        em::family::<Pl>(st, big);
    }
    tuples(st);
    pointers(st);
    statics(st);
}
