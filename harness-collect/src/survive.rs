//! End-to-end survival through a real collection, one run per container kind: the container
//! sits in the arena root and is the ONLY strong holder of its tokens. After two full cycles
//! every strong token must still be alive and dereferenceable, and a token that was stored
//! nowhere must have been dropped.
use crate::cases::BH;
use crate::core::*;
use gc_arena::collect::Trace;
use gc_arena::lock::{Lock, OnceLock, RefLock};
use gc_arena::{Arena, Collect, Gc, GcWeak, Rootable};
use std::cell::Cell;
use std::collections::{BTreeMap, BTreeSet, BinaryHeap, LinkedList, VecDeque};
use std::rc::Rc;
use std::sync::Arc;

pub struct Root<'gc, C> {
    pub c: C,
    pub kept: Vec<(u32, GcWeak<'gc, Payload>, Rc<Cell<u32>>)>,
    pub loose: Vec<(u32, GcWeak<'gc, Payload>, Rc<Cell<u32>>)>,
    pub weak_only: Vec<(u32, GcWeak<'gc, Payload>, Rc<Cell<u32>>)>,
}
// The harness's own impl (trusted): the container goes through `Trace::trace` (as a nested
// value would in a derived impl); the probes are weak.
unsafe impl<'gc, C: Collect<'gc>> Collect<'gc> for Root<'gc, C> {
    const NEEDS_TRACE: bool = true;
    fn trace<T: Trace<'gc>>(&self, cc: &mut T) {
        cc.trace(&self.c);
        for (_, w, _) in self.kept.iter().chain(self.loose.iter()).chain(self.weak_only.iter()) {
            cc.trace_gc_weak(GcWeak::erase(*w));
        }
    }
}

pub struct Outcome {
    pub name: String,
    pub kept: usize,
    pub problems: Vec<String>,
}

macro_rules! survive {
    ($out:ident, $seed:expr, $only:expr, $name:expr, $ty:ty, |$st:ident| $build:expr) => {
        if $only.as_deref().map(|o| o == $name).unwrap_or(true) {
            let mut arena = Arena::<Rootable![Root<'_, $ty>]>::new(|mc| {
                let mut state = State::new(mc, $seed, None);
                let $st = &mut state;
                let c: $ty = $build;
                let kept = std::mem::take(&mut $st.strong);
                let weak_only = std::mem::take(&mut $st.weak_only);
                // tokens that are stored nowhere
                let mut loose = Vec::new();
                for _ in 0..2 {
                    let (g, id, drops) = $st.token();
                    loose.push((id, Gc::downgrade(g), drops));
                }
                Root { c, kept, loose, weak_only }
            });
            arena.finish_cycle();
            arena.finish_cycle();
            let mut problems = Vec::new();
            let kept = arena.mutate(|mc, root| {
                for (id, w, drops) in &root.kept {
                    match w.upgrade(mc) {
                        Some(g) => {
                            if g.id != *id {
                                problems.push(format!("token {} dereferences to id {}", id, g.id));
                            }
                        }
                        None => problems.push(format!("token {} (held strongly inside the container) is dead after collection", id)),
                    }
                    if drops.get() != 0 {
                        problems.push(format!("token {} was dropped {} time(s) while strongly held", id, drops.get()));
                    }
                }
                for (id, w, drops) in &root.loose {
                    if w.upgrade(mc).is_some() || drops.get() != 1 {
                        problems.push(format!("unstored token {} was not reclaimed (drops={})", id, drops.get()));
                    }
                }
                for (id, w, drops) in &root.weak_only {
                    if w.upgrade(mc).is_some() || drops.get() != 1 || !w.is_dropped() {
                        problems.push(format!("token {} is held only WEAKLY inside the container but was retained (drops={}, is_dropped={})", id, drops.get(), w.is_dropped()));
                    }
                }
                root.kept.len()
            });
            $out.push(Outcome { name: $name.to_string(), kept, problems });
        }
    };
}

fn els<'gc>(st: &mut State<'_, 'gc>, n: usize) -> Vec<El<'gc>> {
    make_n::<El<'gc>>(st, n).0
}
/// One element with a strong and a weak token (the strong one is registered as "kept").
fn el1<'gc>(st: &mut State<'_, 'gc>) -> El<'gc> {
    let id = st.fresh();
    let (g1, t1, d1) = st.token();
    st.strong.push((t1, Gc::downgrade(g1), d1));
    let (g2, t2, d2) = st.token();
    st.weak_only.push((t2, Gc::downgrade(g2), d2));
    El { id, s: [Some(g1), None], w: [Some(Gc::downgrade(g2)), None] }
}
fn pls<'gc>(st: &mut State<'_, 'gc>, n: usize) -> Vec<Pl> {
    make_n::<Pl>(st, n).0
}

pub fn run_all(seed: u32, only: Option<String>) -> Vec<Outcome> {
    let mut out: Vec<Outcome> = Vec::new();
    let n = 4;
    survive!(out, seed, only, "std::Vec", Vec<El<'_>>, |st| els(st, n));
    survive!(out, seed, only, "std::VecDeque", VecDeque<El<'_>>, |st| els(st, n).into_iter().collect());
    survive!(out, seed, only, "std::LinkedList", LinkedList<El<'_>>, |st| els(st, n).into_iter().collect());
    survive!(out, seed, only, "std::BTreeSet", BTreeSet<El<'_>>, |st| els(st, n).into_iter().collect());
    survive!(out, seed, only, "std::BinaryHeap", BinaryHeap<El<'_>>, |st| els(st, n).into_iter().collect());
    survive!(out, seed, only, "slice", Box<[El<'_>]>, |st| els(st, n).into_boxed_slice());
    survive!(out, seed, only, "array", [El<'_>; 3], |st| {
        let v = els(st, 3);
        [v[0], v[1], v[2]]
    });
    survive!(out, seed, only, "std::Box", Box<El<'_>>, |st| Box::new(el1(st)));
    survive!(out, seed, only, "std::Rc", Rc<El<'_>>, |st| Rc::new(el1(st)));
    survive!(out, seed, only, "std::Arc", Arc<El<'_>>, |st| Arc::new(el1(st)));
    survive!(out, seed, only, "std::Option", Option<El<'_>>, |st| Some(el1(st)));
    survive!(out, seed, only, "std::Result", (Result<El<'_>, Pl>, Result<Pl, El<'_>>), |st| {
        (Ok(el1(st)), Err(el1(st)))
    });
    survive!(out, seed, only, "crate::Lock", Lock<El<'_>>, |st| Lock::new(el1(st)));
    survive!(out, seed, only, "crate::RefLock", RefLock<El<'_>>, |st| RefLock::new(el1(st)));
    survive!(out, seed, only, "crate::OnceLock", OnceLock<El<'_>>, |st| OnceLock::from(std::cell::OnceCell::from(el1(st))));
    survive!(out, seed, only, "std::BTreeMap", (BTreeMap<El<'_>, Pl>, BTreeMap<Pl, El<'_>>), |st| {
        (
            els(st, n).into_iter().zip(pls(st, n)).collect(),
            pls(st, n).into_iter().zip(els(st, n)).collect(),
        )
    });
    #[cfg(feature = "std")]
    {
        use std::collections::{HashMap, HashSet};
        survive!(out, seed, only, "std::HashMap", (HashMap<El<'_>, Pl, BH>, HashMap<Pl, El<'_>, BH>), |st| {
            (
                els(st, n).into_iter().zip(pls(st, n)).collect(),
                pls(st, n).into_iter().zip(els(st, n)).collect(),
            )
        });
        survive!(out, seed, only, "std::HashSet", HashSet<El<'_>, BH>, |st| els(st, n).into_iter().collect());
    }
    survive!(out, seed, only, "crate::SliceWithHeader",
        (gc_arena::GcSliceWithHeader<'_, El<'_>, Pl>, gc_arena::GcSliceWithHeader<'_, Pl, El<'_>>), |st| {
        let h = el1(st);
        let p = pls(st, n);
        let a = gc_arena::GcSliceWithHeaderBuilder::<El<'_>, Pl>::new(n).write_header(h).write_slice_with(st.mc, |i| p[i]);
        let e = els(st, n);
        let b = gc_arena::GcSliceWithHeaderBuilder::<Pl, El<'_>>::new(n).write_header(Pl(0)).write_slice_with(st.mc, |i| e[i]);
        (a, b)
    });
    survive!(out, seed, only, "tuple/3", (Pl, Pl, El<'_>), |st| (Pl(0), Pl(1), el1(st)));
    survive!(out, seed, only, "tuple/16",
        (Pl, Pl, Pl, Pl, Pl, Pl, Pl, Pl, Pl, Pl, Pl, Pl, Pl, Pl, Pl, El<'_>), |st| {
        (Pl(0), Pl(1), Pl(2), Pl(3), Pl(4), Pl(5), Pl(6), Pl(7), Pl(8), Pl(9), Pl(10), Pl(11), Pl(12), Pl(13), Pl(14), el1(st))
    });
    #[cfg(feature = "hashbrown")]
    {
        survive!(out, seed, only, "hashbrown::HashMap",
            (hashbrown::HashMap<El<'_>, Pl, BH>, hashbrown::HashMap<Pl, El<'_>, BH>), |st| {
            (
                els(st, n).into_iter().zip(pls(st, n)).collect(),
                pls(st, n).into_iter().zip(els(st, n)).collect(),
            )
        });
        survive!(out, seed, only, "hashbrown::HashSet", hashbrown::HashSet<El<'_>, BH>, |st| els(st, n).into_iter().collect());
        survive!(out, seed, only, "hashbrown::HashTable", hashbrown::HashTable<El<'_>>, |st| {
            use std::hash::BuildHasher;
            let bh = BH::default();
            let mut t = hashbrown::HashTable::new();
            for e in els(st, n) {
                t.insert_unique(bh.hash_one(&e), e, |x| bh.hash_one(x));
            }
            t
        });
    }
    #[cfg(feature = "indexmap")]
    {
        survive!(out, seed, only, "indexmap::IndexMap",
            (indexmap::IndexMap<El<'_>, Pl, BH>, indexmap::IndexMap<Pl, El<'_>, BH>), |st| {
            (
                els(st, n).into_iter().zip(pls(st, n)).collect(),
                pls(st, n).into_iter().zip(els(st, n)).collect(),
            )
        });
        survive!(out, seed, only, "indexmap::IndexSet", indexmap::IndexSet<El<'_>, BH>, |st| els(st, n).into_iter().collect());
    }
    #[cfg(feature = "slotmap")]
    survive!(out, seed, only, "slotmap::SlotMap", slotmap::SlotMap<slotmap::DefaultKey, El<'_>>, |st| {
        let mut m = slotmap::SlotMap::new();
        for e in els(st, n) {
            m.insert(e);
        }
        m
    });
    #[cfg(feature = "smallvec")]
    survive!(out, seed, only, "smallvec::SmallVec",
        (smallvec::SmallVec<[El<'_>; 4]>, smallvec::SmallVec<[El<'_>; 4]>), |st| {
        (els(st, 3).into_iter().collect(), els(st, 9).into_iter().collect())
    });
    #[cfg(feature = "enum-map")]
    survive!(out, seed, only, "enum_map::EnumMap", enum_map::EnumMap<bool, El<'_>>, |st| {
        let a = el1(st);
        let b = el1(st);
        enum_map::EnumMap::from_fn(|k| if k { a } else { b })
    });
    // trait objects made collectable with dyn_collect!: strong tokens survive, weak-only tokens are not retained
    survive!(out, seed, only, "dyn:Shape", (crate::cases::DynShape<'_>, Gc<'_, crate::cases::DynShape<'_>>), |st| {
        let a: crate::cases::DynShape<'_> = Box::new(els(st, n));
        let b: crate::cases::DynShape<'_> = Box::new((el1(st), Pl(0)));
        (a, Gc::new(st.mc, b))
    });
    // the pointer types themselves: a Gc chain root -> Gc<Vec<El>> keeps the inner tokens alive
    survive!(out, seed, only, "crate::Gc", Gc<'_, Vec<El<'_>>>, |st| {
        let v = els(st, n);
        Gc::new(st.mc, v)
    });
    out
}
