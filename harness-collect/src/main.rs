//! harness-collect: the recording-tracer twin and the survival test for property C16.
//!   harness-collect twin [--seed N] [--only IMPL_ID] COUNT...   JSON lines on stdout
//!   harness-collect survive [--seed N] [--only IMPL_ID]
mod cases;
mod core;
mod survive;

use gc_arena::{Arena, Rootable};

fn features() -> Vec<&'static str> {
    let mut f = Vec::new();
    #[cfg(feature = "std")]
    f.push("std");
    #[cfg(feature = "hashbrown")]
    f.push("hashbrown");
    #[cfg(feature = "indexmap")]
    f.push("indexmap");
    #[cfg(feature = "slotmap")]
    f.push("slotmap");
    #[cfg(feature = "smallvec")]
    f.push("smallvec");
    #[cfg(feature = "enum-map")]
    f.push("enum-map");
    f
}

fn main() {
    let args: Vec<String> = std::env::args().skip(1).collect();
    let mode = args.first().cloned().unwrap_or_else(|| "twin".into());
    let mut seed = 1u32;
    let mut only: Option<String> = None;
    let mut counts: Vec<usize> = Vec::new();
    let mut i = 1;
    while i < args.len() {
        match args[i].as_str() {
            "--seed" => {
                seed = args[i + 1].parse().expect("seed");
                i += 2;
            }
            "--only" => {
                only = Some(args[i + 1].clone());
                i += 2;
            }
            a => {
                counts.push(a.parse().expect("count"));
                i += 1;
            }
        }
    }
    if counts.is_empty() {
        counts = vec![0, 1, 2, 3, 4, 17];
    }
    let feats = features();
    println!(
        "{{\"kind\":\"header\",\"features\":[{}],\"seed\":{},\"mode\":{}}}",
        feats.iter().map(|f| core::jstr(f)).collect::<Vec<_>>().join(","),
        seed,
        core::jstr(&mode)
    );
    match mode.as_str() {
        "twin" => {
            let arena = Arena::<Rootable![()]>::new(|_| ());
            arena.mutate(|mc, _| {
                let mut st = core::State::new(mc, seed, only.clone());
                cases::all_cases(&mut st, &counts);
                println!(
                    "{{\"kind\":\"summary\",\"cases\":{},\"evaluations\":{},\"exercised\":[{}]}}",
                    st.cases,
                    st.evaluations,
                    st.exercised.iter().map(|s| core::jstr(s)).collect::<Vec<_>>().join(",")
                );
            });
        }
        "survive" => {
            let outs = survive::run_all(seed, only);
            for o in &outs {
                println!(
                    "{{\"kind\":\"survive\",\"impl\":{},\"kept\":{},\"problems\":[{}]}}",
                    core::jstr(&o.name),
                    o.kept,
                    o.problems.iter().map(|s| core::jstr(s)).collect::<Vec<_>>().join(",")
                );
            }
            println!("{{\"kind\":\"summary\",\"survive_runs\":{}}}", outs.len());
        }
        m => {
            eprintln!("unknown mode {}", m);
            std::process::exit(2);
        }
    }
}
